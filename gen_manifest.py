#!/usr/bin/env python3
"""Regenerates MANIFEST.json from checks_config.py and manifest_meta.py (kept in sync by hand-free generation)."""
import json, sys, os
sys.path.insert(0, os.path.dirname(os.path.abspath(__file__)))
from checks_config import CHECKS, PROP_ORDER
from manifest_meta import META, HOOK_COMMITS, NOT_BUILT_REASON

checks = []
na = []
for pid in PROP_ORDER:
    if pid in CHECKS and pid in META:
        m = META[pid]
        c = CHECKS[pid]
        entry = dict(
            property_id=pid,
            quick_cmd="./check %s quick" % pid,
            thorough_cmd="./check %s thorough" % pid,
            evidence_file="/verif/evidence/%s.json" % pid,
            replay_cmd_template="./check %s --replay {path}" % pid,
            engine=m["engine"],
            level_claimed=dict(category=c["level"], text=m["level_text"], design_ref=m["design_ref"]),
            level_note=m["level_note"],
            technique=m["technique"],
        )
        checks.append(entry)
    else:
        na.append(dict(property_id=pid, reason=NOT_BUILT_REASON.get(pid, "check not built yet in this session; see DESIGN.md section 3 for the planned generator and oracle")))

manifest = dict(
    version=1,
    setup_cmd="./check --setup",
    hooks=dict(
        guard="verif",
        enable="go build tag: go test -c -tags verif (the driver passes it for every harness package)",
        baseline_off_cmd="cd /repo && GOFLAGS=-mod=mod GOPROXY=off go test -json -vet=off -count=1 -timeout 25m ./...",
        source_commits=HOOK_COMMITS,
        add_only=True,
    ),
    engines=[
        dict(name="codec", path="/verif/harness/codec", serves_properties=[p for p in PROP_ORDER if p in META and "codec" in META[p]["engine"]], kind_free_text="rapid property tests + bounded-exhaustive enumerations + native fuzz targets over the public codec API, with an independent reference codec as oracle"),
        dict(name="net", path="/verif/harness/net", serves_properties=[p for p in PROP_ORDER if p in META and "net" in META[p]["engine"]], kind_free_text="rapid-generated scripts over real mpx/rpc clients and servers on loopback, raw wire-level peer, fault-injecting TCP proxy, flow-control reference model"),
        dict(name="lang", path="/verif/harness/lang", serves_properties=[p for p in PROP_ORDER if p in META and "lang" in META[p]["engine"]], kind_free_text="grammar-directed schema generator, mutation operators, real cmd/spec binary + go build of its output, emitted rapid drivers"),
    ],
    checks=checks,
    notes="Technique family: property-based testing and fuzzing only (pgregory.net/rapid v1.3.0, native go fuzzing in thorough tiers). Driver: /verif/check; exit 0/1/2 as described in DESIGN.md 1.3. Known findings: /verif/KNOWN_FINDINGS.txt.",
    not_applicable=na,
)
json.dump(manifest, open(os.path.join(os.path.dirname(os.path.abspath(__file__)), "MANIFEST.json"), "w"), indent=1)
print("checks:", [c["property_id"] for c in checks], "not_applicable:", [n["property_id"] for n in na])
