// Package gen holds the harness' own AST of a spec value and its generators.
// It imports nothing from the library under test.
package gen

import (
	"bytes"
	"encoding/binary"
	"fmt"
	"hash/fnv"
	"math"
	"strings"
)

type Kind uint8

const (
	KBool Kind = iota
	KByte
	KInt16
	KInt32
	KInt64
	KUint16
	KUint32
	KUint64
	KFloat32
	KFloat64
	KBin64
	KBin128
	KBin256
	KBytes
	KString
	KStruct
	KList
	KMessage
	numKinds
)

var kindNames = [...]string{"bool", "byte", "int16", "int32", "int64", "uint16", "uint32", "uint64", "float32", "float64",
	"bin64", "bin128", "bin256", "bytes", "string", "struct", "list", "message"}

func (k Kind) String() string {
	if int(k) < len(kindNames) {
		return kindNames[k]
	}
	return fmt.Sprintf("kind%d", k)
}

func (k Kind) Scalar() bool { return k < KStruct }

// Node is one value. Exactly one payload group is meaningful per kind:
//
//	bool/byte/int*: I ; uint*: U ; float32/64: U holds the IEEE bits ;
//	bin*, bytes, string: B ; struct: Elems = scalar members in declaration order ;
//	list: Elems ; message: Fields in *write order* with distinct tags.
type Node struct {
	Kind   Kind
	I      int64
	U      uint64
	B      []byte
	Elems  []*Node
	Fields []Field
}

type Field struct {
	Tag uint16
	V   *Node
}

func Bool(v bool) *Node {
	if v {
		return &Node{Kind: KBool, I: 1}
	}
	return &Node{Kind: KBool}
}
func Byte(v byte) *Node       { return &Node{Kind: KByte, I: int64(v)} }
func Int16(v int16) *Node     { return &Node{Kind: KInt16, I: int64(v)} }
func Int32(v int32) *Node     { return &Node{Kind: KInt32, I: int64(v)} }
func Int64(v int64) *Node     { return &Node{Kind: KInt64, I: v} }
func Uint16(v uint16) *Node   { return &Node{Kind: KUint16, U: uint64(v)} }
func Uint32(v uint32) *Node   { return &Node{Kind: KUint32, U: uint64(v)} }
func Uint64(v uint64) *Node   { return &Node{Kind: KUint64, U: v} }
func Float32(v float32) *Node { return &Node{Kind: KFloat32, U: uint64(math.Float32bits(v))} }
func Float64(v float64) *Node { return &Node{Kind: KFloat64, U: math.Float64bits(v)} }
func Bytes(b []byte) *Node    { return &Node{Kind: KBytes, B: b} }
func String(s string) *Node   { return &Node{Kind: KString, B: []byte(s)} }
func List(e ...*Node) *Node   { return &Node{Kind: KList, Elems: e} }
func Message(f ...Field) *Node {
	return &Node{Kind: KMessage, Fields: f}
}
func F(tag uint16, v *Node) Field { return Field{tag, v} }

// Equal compares two trees. Message fields are compared as tag->value maps when
// ordered is false, and as sequences (write order) when ordered is true.
func Equal(a, b *Node, ordered bool) bool {
	if a == nil || b == nil {
		return a == b
	}
	if a.Kind != b.Kind {
		return false
	}
	switch a.Kind {
	case KBool, KByte, KInt16, KInt32, KInt64:
		return a.I == b.I
	case KUint16, KUint32, KUint64, KFloat32, KFloat64:
		return a.U == b.U
	case KBin64, KBin128, KBin256, KBytes, KString:
		return bytes.Equal(a.B, b.B)
	case KStruct, KList:
		if len(a.Elems) != len(b.Elems) {
			return false
		}
		for i := range a.Elems {
			if !Equal(a.Elems[i], b.Elems[i], ordered) {
				return false
			}
		}
		return true
	case KMessage:
		if len(a.Fields) != len(b.Fields) {
			return false
		}
		if ordered {
			for i := range a.Fields {
				if a.Fields[i].Tag != b.Fields[i].Tag || !Equal(a.Fields[i].V, b.Fields[i].V, ordered) {
					return false
				}
			}
			return true
		}
		m := make(map[uint16]*Node, len(b.Fields))
		for _, f := range b.Fields {
			m[f.Tag] = f.V
		}
		for _, f := range a.Fields {
			o, ok := m[f.Tag]
			if !ok || !Equal(f.V, o, ordered) {
				return false
			}
		}
		return true
	}
	return false
}

// Fingerprint is a 64-bit hash of the tree including write order.
func (n *Node) Fingerprint() uint64 {
	h := fnv.New64a()
	n.hashTo(h)
	return h.Sum64()
}

type hw interface{ Write([]byte) (int, error) }

func (n *Node) hashTo(h hw) {
	var b [9]byte
	b[0] = byte(n.Kind)
	switch n.Kind {
	case KBool, KByte, KInt16, KInt32, KInt64:
		binary.LittleEndian.PutUint64(b[1:], uint64(n.I))
		h.Write(b[:])
	case KUint16, KUint32, KUint64, KFloat32, KFloat64:
		binary.LittleEndian.PutUint64(b[1:], n.U)
		h.Write(b[:])
	case KBin64, KBin128, KBin256, KBytes, KString:
		binary.LittleEndian.PutUint64(b[1:], uint64(len(n.B)))
		h.Write(b[:])
		h.Write(n.B)
	case KStruct, KList:
		binary.LittleEndian.PutUint64(b[1:], uint64(len(n.Elems)))
		h.Write(b[:])
		for _, e := range n.Elems {
			e.hashTo(h)
		}
	case KMessage:
		binary.LittleEndian.PutUint64(b[1:], uint64(len(n.Fields)))
		h.Write(b[:])
		for _, f := range n.Fields {
			h.Write([]byte{byte(f.Tag), byte(f.Tag >> 8)})
			f.V.hashTo(h)
		}
	}
}

// Depth returns the nesting depth (a scalar has depth 1).
func (n *Node) Depth() int {
	d := 0
	for _, e := range n.Elems {
		if x := e.Depth(); x > d {
			d = x
		}
	}
	for _, f := range n.Fields {
		if x := f.V.Depth(); x > d {
			d = x
		}
	}
	return d + 1
}

// Count returns the number of nodes.
func (n *Node) Count() int {
	c := 1
	for _, e := range n.Elems {
		c += e.Count()
	}
	for _, f := range n.Fields {
		c += f.V.Count()
	}
	return c
}

// Render returns a bounded human-readable form.
func (n *Node) Render(max int) string {
	var sb strings.Builder
	n.render(&sb, max)
	s := sb.String()
	if len(s) > max {
		s = s[:max] + "…"
	}
	return s
}

func (n *Node) render(sb *strings.Builder, max int) {
	if sb.Len() > max {
		return
	}
	switch n.Kind {
	case KBool:
		fmt.Fprintf(sb, "%v", n.I != 0)
	case KByte, KInt16, KInt32, KInt64:
		fmt.Fprintf(sb, "%s(%d)", n.Kind, n.I)
	case KUint16, KUint32, KUint64:
		fmt.Fprintf(sb, "%s(%d)", n.Kind, n.U)
	case KFloat32:
		fmt.Fprintf(sb, "f32(%#x)", uint32(n.U))
	case KFloat64:
		fmt.Fprintf(sb, "f64(%#x)", n.U)
	case KBin64, KBin128, KBin256:
		fmt.Fprintf(sb, "%s(%x)", n.Kind, n.B)
	case KBytes, KString:
		if len(n.B) <= 12 {
			fmt.Fprintf(sb, "%s(%q)", n.Kind, n.B)
		} else {
			fmt.Fprintf(sb, "%s(len=%d %q…)", n.Kind, len(n.B), n.B[:8])
		}
	case KStruct, KList:
		if n.Kind == KStruct {
			sb.WriteString("struct")
		}
		sb.WriteString("[")
		for i, e := range n.Elems {
			if i > 0 {
				sb.WriteString(",")
			}
			if i >= 6 && i < len(n.Elems)-1 {
				fmt.Fprintf(sb, "…(%d elems)", len(n.Elems))
				n.Elems[len(n.Elems)-1].render(sb, max)
				break
			}
			e.render(sb, max)
		}
		sb.WriteString("]")
	case KMessage:
		sb.WriteString("{")
		for i, f := range n.Fields {
			if i > 0 {
				sb.WriteString(",")
			}
			if i >= 6 && i < len(n.Fields)-1 {
				fmt.Fprintf(sb, "…(%d fields)", len(n.Fields))
				l := n.Fields[len(n.Fields)-1]
				fmt.Fprintf(sb, "%d:", l.Tag)
				l.V.render(sb, max)
				break
			}
			fmt.Fprintf(sb, "%d:", f.Tag)
			f.V.render(sb, max)
		}
		sb.WriteString("}")
	}
}
