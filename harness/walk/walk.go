// Package walk calls every public read entry point of the library on a byte string and
// checks the C02 safety contract: no panic (caller recovers), reported sizes within
// [0,len(input)] when no error is returned, returned views inside the input.
package walk

import (
	"fmt"
	"unsafe"

	spec "github.com/basecomplextech/spec"
)

// Walker carries limits and counters.
type Walker struct {
	MaxDepth int
	Budget   int // accessor calls left for this input
	Calls    int
	in       []byte
	// Accepted is set when ParseValue accepted the input.
	Accepted bool
	// Lenient lists entry points that accepted (n>0, err==nil) - for labels only.
	AcceptedBy int
}

func New() *Walker { return &Walker{MaxDepth: 6, Budget: 2500} }

func (w *Walker) inside(p []byte) bool {
	if len(p) == 0 {
		return true
	}
	if len(w.in) == 0 {
		return false
	}
	lo := uintptr(unsafe.Pointer(unsafe.SliceData(w.in)))
	hi := lo + uintptr(len(w.in))
	a := uintptr(unsafe.Pointer(unsafe.SliceData(p)))
	return a >= lo && a+uintptr(len(p)) <= hi
}

func (w *Walker) insideStr(s string) bool {
	if len(s) == 0 {
		return true
	}
	if len(w.in) == 0 {
		return false
	}
	lo := uintptr(unsafe.Pointer(unsafe.SliceData(w.in)))
	hi := lo + uintptr(len(w.in))
	a := uintptr(unsafe.Pointer(unsafe.StringData(s)))
	return a >= lo && a+uintptr(len(s)) <= hi
}

func (w *Walker) sz(what string, n int, err error, b []byte) error {
	w.Calls++
	if err == nil {
		if n < 0 || n > len(b) {
			return fmt.Errorf("%s reports size %d for a %d-byte input without error", what, n, len(b))
		}
		if n > 0 {
			w.AcceptedBy++
		}
	}
	return nil
}

// All runs every entry point on b. The caller provides panic recovery.
func (w *Walker) All(b []byte) error {
	w.in = b
	if err := w.decoders(b); err != nil {
		return err
	}
	// open / parse
	v, n, err := spec.ParseValue(b)
	if e := w.sz("ParseValue", n, err, b); e != nil {
		return e
	}
	if err == nil {
		w.Accepted = n > 0
		if !w.inside(v) {
			return fmt.Errorf("ParseValue returned bytes outside the input")
		}
	}
	ov := spec.OpenValue(b)
	if !w.inside(ov) {
		return fmt.Errorf("OpenValue returned bytes outside the input")
	}
	ove, _ := spec.OpenValueErr(b)
	if !w.inside(ove) {
		return fmt.Errorf("OpenValueErr returned bytes outside the input")
	}
	if err := w.value(spec.Value(b), 0); err != nil {
		return err
	}
	if len(ov) != len(b) && len(ov) > 0 {
		if err := w.value(ov, 0); err != nil {
			return err
		}
	}
	// message
	m, n, err := spec.ParseMessage(b)
	if e := w.sz("ParseMessage", n, err, b); e != nil {
		return e
	}
	if err == nil {
		if e := w.message(m, 0); e != nil {
			return e
		}
	}
	if e := w.message(spec.OpenMessage(b), 0); e != nil {
		return e
	}
	if m2, err := spec.OpenMessageErr(b); err == nil {
		if !w.inside(m2.Raw()) {
			return fmt.Errorf("OpenMessageErr.Raw outside the input")
		}
	}
	// list
	l, n, err := spec.ParseList(b)
	if e := w.sz("ParseList", n, err, b); e != nil {
		return e
	}
	if err == nil {
		if e := w.list(l, 0); e != nil {
			return e
		}
	}
	if e := w.list(spec.OpenList(b), 0); e != nil {
		return e
	}
	if l2, err := spec.OpenListErr(b); err == nil {
		if !w.inside(l2.Raw()) {
			return fmt.Errorf("OpenListErr.Raw outside the input")
		}
	}
	return w.typedLists(b)
}

func (w *Walker) decoders(b []byte) error {
	{
		_, n, err := spec.DecodeType(b)
		if e := w.sz("DecodeType", n, err, b); e != nil {
			return e
		}
	}
	{
		_, n, err := spec.DecodeTypeSize(b)
		if e := w.sz("DecodeTypeSize", n, err, b); e != nil {
			return e
		}
	}
	{
		_, n, err := spec.DecodeBool(b)
		if e := w.sz("DecodeBool", n, err, b); e != nil {
			return e
		}
	}
	{
		_, n, err := spec.DecodeByte(b)
		if e := w.sz("DecodeByte", n, err, b); e != nil {
			return e
		}
	}
	{
		_, n, err := spec.DecodeInt16(b)
		if e := w.sz("DecodeInt16", n, err, b); e != nil {
			return e
		}
	}
	{
		_, n, err := spec.DecodeInt32(b)
		if e := w.sz("DecodeInt32", n, err, b); e != nil {
			return e
		}
	}
	{
		_, n, err := spec.DecodeInt64(b)
		if e := w.sz("DecodeInt64", n, err, b); e != nil {
			return e
		}
	}
	{
		_, n, err := spec.DecodeUint16(b)
		if e := w.sz("DecodeUint16", n, err, b); e != nil {
			return e
		}
	}
	{
		_, n, err := spec.DecodeUint32(b)
		if e := w.sz("DecodeUint32", n, err, b); e != nil {
			return e
		}
	}
	{
		_, n, err := spec.DecodeUint64(b)
		if e := w.sz("DecodeUint64", n, err, b); e != nil {
			return e
		}
	}
	{
		_, n, err := spec.DecodeFloat32(b)
		if e := w.sz("DecodeFloat32", n, err, b); e != nil {
			return e
		}
	}
	{
		_, n, err := spec.DecodeFloat64(b)
		if e := w.sz("DecodeFloat64", n, err, b); e != nil {
			return e
		}
	}
	{
		_, n, err := spec.DecodeBin64(b)
		if e := w.sz("DecodeBin64", n, err, b); e != nil {
			return e
		}
	}
	{
		_, n, err := spec.DecodeBin128(b)
		if e := w.sz("DecodeBin128", n, err, b); e != nil {
			return e
		}
	}
	{
		_, n, err := spec.DecodeBin256(b)
		if e := w.sz("DecodeBin256", n, err, b); e != nil {
			return e
		}
	}
	{
		p, n, err := spec.DecodeBytes(b)
		if e := w.sz("DecodeBytes", n, err, b); e != nil {
			return e
		}
		if !w.inside(p) {
			return fmt.Errorf("DecodeBytes returned data outside the input")
		}
		if err == nil && len(p) > n {
			return fmt.Errorf("DecodeBytes returned %d data bytes but size %d", len(p), n)
		}
	}
	{
		s, n, err := spec.DecodeString(b)
		if e := w.sz("DecodeString", n, err, b); e != nil {
			return e
		}
		if !w.insideStr(string(s)) {
			return fmt.Errorf("DecodeString returned data outside the input")
		}
		if err == nil && len(s) > n {
			return fmt.Errorf("DecodeString returned %d data bytes but size %d", len(s), n)
		}
	}
	{
		_, n, err := spec.DecodeStringClone(b)
		if e := w.sz("DecodeStringClone", n, err, b); e != nil {
			return e
		}
	}
	{
		ds, n, err := spec.DecodeStruct(b)
		if e := w.sz("DecodeStruct", n, err, b); e != nil {
			return e
		}
		if err == nil && (ds < 0 || ds > n) {
			return fmt.Errorf("DecodeStruct reports data size %d with total size %d", ds, n)
		}
	}
	{
		t, n, err := spec.DecodeListTable(b)
		if e := w.sz("DecodeListTable", n, err, b); e != nil {
			return e
		}
		if err == nil {
			ln := t.Len()
			if ln < 0 || ln > len(b) {
				return fmt.Errorf("ListTable.Len() = %d for a %d-byte input", ln, len(b))
			}
			for _, i := range sampleIdx(ln) {
				t.Offset(i)
				w.Calls++
			}
			t.Offset(-1)
			t.Offset(ln)
			if ln <= 4096 {
				if got := len(t.Elements()); got != ln {
					return fmt.Errorf("ListTable.Elements() has %d entries, Len() %d", got, ln)
				}
			}
			if int(t.DataSize()) > len(b) {
				return fmt.Errorf("ListTable.DataSize() = %d for a %d-byte input", t.DataSize(), len(b))
			}
		}
	}
	{
		t, n, err := spec.DecodeMessageTable(b)
		if e := w.sz("DecodeMessageTable", n, err, b); e != nil {
			return e
		}
		if err == nil {
			ln := t.Len()
			if ln < 0 || ln > len(b) {
				return fmt.Errorf("MessageTable.Len() = %d for a %d-byte input", ln, len(b))
			}
			for _, i := range sampleIdx(ln) {
				f, ok := t.Field(i)
				t.OffsetByIndex(i)
				if ok {
					t.Offset(f.Tag)
					t.Offset(f.Tag + 1)
				}
				w.Calls++
			}
			t.Field(-1)
			t.Field(ln)
			t.OffsetByIndex(-1)
			t.OffsetByIndex(ln)
			t.Offset(0)
			t.Offset(65535)
			if ln <= 4096 {
				if got := len(t.Fields()); got != ln {
					return fmt.Errorf("MessageTable.Fields() has %d entries, Len() %d", got, ln)
				}
			}
			if int(t.DataSize()) > len(b) {
				return fmt.Errorf("MessageTable.DataSize() = %d for a %d-byte input", t.DataSize(), len(b))
			}
		}
	}
	return nil
}

// sampleIdx returns indices in [0,n): first/last 32 and a sparse sample.
func sampleIdx(n int) []int {
	if n <= 0 {
		return nil
	}
	if n <= 80 {
		out := make([]int, n)
		for i := range out {
			out[i] = i
		}
		return out
	}
	out := make([]int, 0, 96)
	for i := 0; i < 32; i++ {
		out = append(out, i)
	}
	step := n / 32
	for i := 32; i < n-32; i += step {
		out = append(out, i)
	}
	for i := n - 32; i < n; i++ {
		out = append(out, i)
	}
	return out
}

func (w *Walker) value(v spec.Value, depth int) error {
	if w.Budget <= 0 {
		return nil
	}
	w.Budget -= 40
	w.Calls += 40
	v.Type()
	v.Bool()
	v.BoolErr()
	v.Byte()
	v.ByteErr()
	v.Int16()
	v.Int16Err()
	v.Int32()
	v.Int32Err()
	v.Int64()
	v.Int64Err()
	v.Uint16()
	v.Uint16Err()
	v.Uint32()
	v.Uint32Err()
	v.Uint64()
	v.Uint64Err()
	v.Float32()
	v.Float32Err()
	v.Float64()
	v.Float64Err()
	v.Bin64()
	v.Bin64Err()
	v.Bin128()
	v.Bin128Err()
	v.Bin256()
	v.Bin256Err()
	if p := v.Bytes(); !w.inside(p) {
		return fmt.Errorf("Value.Bytes outside the input")
	}
	if p, _ := v.BytesErr(); !w.inside(p) {
		return fmt.Errorf("Value.BytesErr outside the input")
	}
	if s := v.String(); !w.insideStr(string(s)) {
		return fmt.Errorf("Value.String outside the input")
	}
	if s, _ := v.StringErr(); !w.insideStr(string(s)) {
		return fmt.Errorf("Value.StringErr outside the input")
	}
	if depth >= w.MaxDepth {
		return nil
	}
	if l, err := v.ListErr(); err == nil {
		if e := w.list(l, depth+1); e != nil {
			return e
		}
	}
	if e := w.list(v.List(), depth+1); e != nil {
		return e
	}
	if m, err := v.MessageErr(); err == nil {
		if e := w.message(m, depth+1); e != nil {
			return e
		}
	}
	return w.message(v.Message(), depth+1)
}

func (w *Walker) list(l spec.List, depth int) error {
	if w.Budget <= 0 {
		return nil
	}
	w.Budget -= 4
	w.Calls += 4
	if !w.inside(l.Raw()) {
		return fmt.Errorf("List.Raw outside the input")
	}
	n := l.Len()
	l.Empty()
	if n < 0 || n > len(w.in) {
		return fmt.Errorf("List.Len() = %d for a %d-byte input", n, len(w.in))
	}
	for _, i := range sampleIdx(n) {
		if w.Budget <= 0 {
			break
		}
		w.Budget -= 2
		w.Calls += 2
		e := l.Get(i)
		eb := l.GetBytes(i)
		if !w.inside(e) || !w.inside(eb) {
			return fmt.Errorf("List.Get(%d)/GetBytes outside the input", i)
		}
		if depth < w.MaxDepth && len(eb) > 0 {
			if err := w.value(e, depth+1); err != nil {
				return err
			}
		}
	}
	return nil
}

func (w *Walker) message(m spec.Message, depth int) error {
	if w.Budget <= 0 {
		return nil
	}
	w.Budget -= 6
	w.Calls += 6
	if !w.inside(m.Raw()) {
		return fmt.Errorf("Message.Raw outside the input")
	}
	n := m.Fields()
	m.Empty()
	m.Len()
	if n < 0 || n > len(w.in) {
		return fmt.Errorf("Message.Fields() = %d for a %d-byte input", n, len(w.in))
	}
	m.TagAt(-1)
	m.TagAt(n)
	m.FieldAt(-1)
	m.FieldAt(n)
	tags := []uint16{0, 65535}
	if depth == 0 {
		tags = append(tags, 1, 255, 256)
	}
	for _, i := range sampleIdx(n) {
		if w.Budget <= 0 {
			break
		}
		w.Budget -= 3
		w.Calls += 3
		tag, ok := m.TagAt(i)
		fa := m.FieldAt(i)
		if !w.inside(fa) {
			return fmt.Errorf("Message.FieldAt(%d) outside the input", i)
		}
		if ok && len(tags) < 14 {
			tags = append(tags, tag, tag+1, tag-1)
		}
		if depth < w.MaxDepth && len(fa) > 0 {
			if err := w.value(fa, depth+1); err != nil {
				return err
			}
		}
	}
	for _, tag := range tags {
		if w.Budget <= 0 {
			break
		}
		w.Budget -= 45
		w.Calls += 45
		m.HasField(tag)
		if f := m.Field(tag); !w.inside(f) {
			return fmt.Errorf("Message.Field(%d) outside the input", tag)
		}
		if f := m.FieldRaw(tag); !w.inside(f) {
			return fmt.Errorf("Message.FieldRaw(%d) outside the input", tag)
		}
		m.Bool(tag)
		m.BoolErr(tag)
		m.Byte(tag)
		m.ByteErr(tag)
		m.Int16(tag)
		m.Int16Err(tag)
		m.Int32(tag)
		m.Int32Err(tag)
		m.Int64(tag)
		m.Int64Err(tag)
		m.Uint16(tag)
		m.Uint16Err(tag)
		m.Uint32(tag)
		m.Uint32Err(tag)
		m.Uint64(tag)
		m.Uint64Err(tag)
		m.Float32(tag)
		m.Float32Err(tag)
		m.Float64(tag)
		m.Float64Err(tag)
		m.Bin64(tag)
		m.Bin64Err(tag)
		m.Bin128(tag)
		m.Bin128Err(tag)
		m.Bin256(tag)
		m.Bin256Err(tag)
		if p := m.Bytes(tag); !w.inside(p) {
			return fmt.Errorf("Message.Bytes(%d) outside the input", tag)
		}
		if p, _ := m.BytesErr(tag); !w.inside(p) {
			return fmt.Errorf("Message.BytesErr(%d) outside the input", tag)
		}
		if s := m.String(tag); !w.insideStr(string(s)) {
			return fmt.Errorf("Message.String(%d) outside the input", tag)
		}
		if s, _ := m.StringErr(tag); !w.insideStr(string(s)) {
			return fmt.Errorf("Message.StringErr(%d) outside the input", tag)
		}
		if !w.inside(m.List(tag).Raw()) {
			return fmt.Errorf("Message.List(%d).Raw outside the input", tag)
		}
		m.ListErr(tag)
		if !w.inside(m.Message(tag).Raw()) {
			return fmt.Errorf("Message.Message(%d).Raw outside the input", tag)
		}
		m.MessageErr(tag)
	}
	return nil
}

type enumT int32

func decodeEnum(b []byte) (enumT, int, error) {
	v, n, err := spec.DecodeInt32(b)
	return enumT(v), n, err
}

// typedLists exercises the generic list wrappers with scalar, enum, string and message element decoders.
func (w *Walker) typedLists(b []byte) error {
	if w.Budget <= 0 {
		return nil
	}
	chk := func(what string, n int, err error) error { return w.sz(what, n, err, b) }
	{
		l, n, err := spec.ParseValueList(b, spec.DecodeInt32)
		if e := chk("ParseValueList[int32]", n, err); e != nil {
			return e
		}
		_ = l
		lo := spec.OpenValueList(b, spec.DecodeInt64)
		cnt := lo.Len()
		if cnt < 0 || cnt > len(b) {
			return fmt.Errorf("ValueList.Len() = %d for a %d-byte input", cnt, len(b))
		}
		if !w.inside(lo.Raw()) {
			return fmt.Errorf("ValueList.Raw outside the input")
		}
		lo.Empty()
		for _, i := range sampleIdx(cnt) {
			lo.Get(i)
			lo.GetErr(i)
			if !w.inside(lo.GetBytes(i)) {
				return fmt.Errorf("ValueList.GetBytes(%d) outside the input", i)
			}
			w.Calls += 3
		}
		if cnt <= 2048 {
			if got := len(lo.Values()); got != cnt {
				return fmt.Errorf("ValueList.Values() has %d entries, Len() %d", got, cnt)
			}
		}
		if _, err := spec.OpenValueListErr(b, spec.DecodeUint16); err == nil {
			w.Calls++
		}
	}
	{
		_, n, err := spec.ParseValueList(b, decodeEnum)
		if e := chk("ParseValueList[enum]", n, err); e != nil {
			return e
		}
		ls := spec.OpenValueList(b, spec.DecodeString)
		for _, i := range sampleIdx(ls.Len()) {
			if s := ls.Get(i); !w.insideStr(string(s)) {
				return fmt.Errorf("ValueList[string].Get(%d) outside the input", i)
			}
			w.Calls++
		}
		lb := spec.OpenValueList(b, spec.DecodeBytes)
		for _, i := range sampleIdx(lb.Len()) {
			if p := lb.Get(i); !w.inside(p) {
				return fmt.Errorf("ValueList[bytes].Get(%d) outside the input", i)
			}
			w.Calls++
		}
	}
	{
		ml, n, err := spec.ParseMessageList(b, spec.OpenMessageErr)
		if e := chk("ParseMessageList", n, err); e != nil {
			return e
		}
		_ = ml
		mo := spec.OpenMessageList(b, spec.OpenMessageErr)
		cnt := mo.Len()
		if !w.inside(mo.Raw()) {
			return fmt.Errorf("MessageList.Raw outside the input")
		}
		mo.Empty()
		for _, i := range sampleIdx(cnt) {
			m := mo.Get(i)
			if !w.inside(m.Raw()) {
				return fmt.Errorf("MessageList.Get(%d).Raw outside the input", i)
			}
			mo.GetErr(i)
			mo.GetBytes(i)
			w.Calls += 3
		}
		if cnt <= 2048 {
			if got := len(mo.Values()); got != cnt {
				return fmt.Errorf("MessageList.Values() has %d entries, Len() %d", got, cnt)
			}
		}
		spec.OpenMessageListErr(b, spec.OpenMessageErr)
	}
	return nil
}
