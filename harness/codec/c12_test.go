package codec

// C12 — writer rejects misuse with sticky errors, never panics or emits garbage.

import (
	"bytes"
	"fmt"
	"runtime/debug"
	"strings"
	"testing"

	"github.com/basecomplextech/baselibrary/buffer"
	spec "github.com/basecomplextech/spec"
	"pgregory.net/rapid"

	"verifharness/ev"
	"verifharness/gen"
	"verifharness/prog"
	"verifharness/refcodec"
)

const c12 = "C12"

var c12big = make([]byte, 66000)

type c12case struct {
	Calls []string `json:"calls"`
}

// machine interprets call sequences on one explicitly owned writer.
type machine struct {
	t    ev.TB
	w    spec.Writer
	msgs []*msgVar // message handle variables
	lsts []lstVar
	vals []spec.ValueWriter

	e       error // first error (sticky) or nil
	log     []string
	illegal int // calls the model knows to be misuse
	stale   int // uses of stale handles
	afterE  int // calls made while an error is sticky
	roots   int // successful root builds
	freed   bool
	broken  bool // stop after a violation was recorded (when not failing immediately)
}

type lstVar struct {
	l        spec.ListWriter
	detached bool // derived from a detached message handle: calls do not reach the writer
}

type msgVar struct {
	v        spec.MessageWriter // the variable End/Build are called on
	copy     spec.MessageWriter // value copy taken at creation (never detached)
	detached bool
	born     bool // created from a detached handle: even the copy does not reach the writer
}

var c12valid = func() [][]byte {
	var out [][]byte
	for _, n := range []*gen.Node{gen.Int32(5), gen.String("ab"), gen.Message(gen.F(3, gen.Bool(true))), gen.List(gen.Byte(1), gen.Byte(2))} {
		out = append(out, refcodec.Encode(nil, n))
	}
	return out
}()

func newMachine(t ev.TB, withBuf bool) *machine {
	m := &machine{t: t}
	if withBuf {
		m.w = spec.NewWriterBuffer(buffer.New())
		m.logf("w := NewWriterBuffer(buf)")
	} else {
		m.w = spec.NewWriter()
		m.logf("w := NewWriter()")
	}
	return m
}

func (m *machine) logf(format string, a ...any) {
	if len(m.log) < 200 {
		m.log = append(m.log, fmt.Sprintf(format, a...))
	}
}

func (m *machine) kase() c12case { return c12case{Calls: m.log} }

// call runs f with panic capture; reach tells whether the call reaches the writer and
// returns an error value (so that the stickiness rule applies to it).
func (m *machine) call(desc string, reach bool, f func() error) {
	m.logf("%s", desc)
	if m.e != nil {
		m.afterE++
	}
	var err error
	pan := func() (p string) {
		defer func() {
			if r := recover(); r != nil {
				st := debug.Stack()
				if fromRapid(st) {
					panic(r)
				}
				p = fmt.Sprintf("%v\n%s", r, trimStack(st))
			}
		}()
		err = f()
		return
	}()
	if pan != "" {
		key := "panic:" + panicSite(pan)
		ev.Violation(m.t, c12, key, m.kase(), "call %q panicked: %s", desc, pan)
	}
	m.log[len(m.log)-1] += fmt.Sprintf(" -> %v", err)
	if reach {
		if m.e != nil {
			if err == nil || err.Error() != m.e.Error() {
				ev.Violation(m.t, c12, "not-sticky", m.kase(), "first error was %q but later call %q returned %v", m.e, desc, err)
			}
		} else if err != nil {
			m.e = err
		}
	}
	m.observe(desc)
}

// observe reads Err() after every step and applies the stickiness rule to it.
func (m *machine) observe(after string) {
	var cur error
	pan := catch(func() { cur = m.w.Err() })
	if pan != "" {
		ev.Violation(m.t, c12, "panic:Err", m.kase(), "Err() panicked after %q: %s", after, pan)
	}
	if m.e != nil {
		if cur == nil || cur.Error() != m.e.Error() {
			ev.Violation(m.t, c12, "err-not-sticky", m.kase(), "first error was %q but Err() reports %v after %q", m.e, cur, after)
		}
	} else if cur != nil {
		m.e = cur
	}
}

func panicSite(p string) string {
	for _, l := range strings.Split(p, "\n") {
		if strings.Contains(l, "basecomplextech/spec/") {
			l = strings.TrimSpace(l)
			if i := strings.Index(l, "("); i > 0 {
				l = l[:i]
			}
			if j := strings.LastIndex(l, "/"); j >= 0 {
				l = l[j+1:]
			}
			return l
		}
	}
	return "unknown"
}

func (m *machine) checkBuilt(desc string, b []byte, err error) {
	if err != nil {
		return
	}
	// root iff the writer closed itself
	closed := false
	if cur := m.w.Err(); cur != nil && strings.Contains(cur.Error(), "closed writer") {
		closed = true
	}
	if !closed {
		ev.Label(c12, "nonroot-build-ok", 1)
		return
	}
	m.roots++
	var n int
	var perr error
	pan := catch(func() { _, n, perr = spec.ParseValue(b) })
	if pan != "" || perr != nil || n != len(b) || len(b) == 0 {
		ev.Violation(m.t, c12, "built-garbage", m.kase(), "%s returned nil error but the %d bytes % x do not parse completely: n=%d err=%v panic=%s", desc, len(b), clip(b, 48), n, perr, pan)
	}
	var rerr error
	if pan := catch(func() { rerr = readable(b, 0) }); pan != "" || rerr != nil {
		ev.Violation(m.t, c12, "built-unreadable", m.kase(), "%s returned nil error but nested data cannot be read: %v %s (% x)", desc, rerr, pan, clip(b, 48))
	}
}

// Action alphabet. arg selects handles/tags/values.
const c12NumActions = 30

func (m *machine) pickMsg(arg int) *msgVar {
	if len(m.msgs) == 0 {
		return nil
	}
	return m.msgs[(len(m.msgs)-1-arg%len(m.msgs)+len(m.msgs))%len(m.msgs)]
}
func (m *machine) pickList(arg int) (lstVar, bool) {
	if len(m.lsts) == 0 {
		return lstVar{}, false
	}
	return m.lsts[(len(m.lsts)-1-arg%len(m.lsts)+len(m.lsts))%len(m.lsts)], true
}
func (m *machine) pickVal(arg int) (spec.ValueWriter, bool) {
	if len(m.vals) == 0 {
		return spec.ValueWriter{}, false
	}
	return m.vals[(len(m.vals)-1-arg%len(m.vals)+len(m.vals))%len(m.vals)], true
}

// step performs action a with argument selector arg; returns false when the action is not enabled.
func (m *machine) step(a, arg int) bool {
	tag := uint16(1 + arg%2)
	if arg%7 == 6 {
		tag = 300
	}
	switch a {
	case 0:
		m.call("m := w.Message()", false, func() error {
			h := m.w.Message()
			m.msgs = append(m.msgs, &msgVar{v: h, copy: h})
			return nil
		})
	case 1:
		m.call("l := w.List()", false, func() error { m.lsts = append(m.lsts, lstVar{l: m.w.List()}); return nil })
	case 2:
		m.call("v := w.Value()", false, func() error { m.vals = append(m.vals, m.w.Value()); return nil })
	case 3:
		v, ok := m.pickVal(arg)
		if !ok {
			return false
		}
		switch arg % 3 {
		case 0:
			m.call("v.Int32(7)", true, func() error { return v.Int32(7) })
		case 1:
			m.call(`v.String("s")`, true, func() error { return v.String("s") })
		default:
			m.call("v.Bool(true)", true, func() error { return v.Bool(true) })
		}
	case 4:
		v, ok := m.pickVal(arg)
		if !ok {
			return false
		}
		var b []byte
		var err error
		m.call("v.Build()", true, func() error { b, err = v.Build(); return err })
		m.checkBuilt("ValueWriter.Build", b, err)
	case 5:
		v, ok := m.pickVal(arg)
		if !ok {
			return false
		}
		if arg%2 == 0 {
			m.call("v.Message()", false, func() error { h := v.Message(); m.msgs = append(m.msgs, &msgVar{v: h, copy: h}); return nil })
		} else {
			m.call("v.List()", false, func() error { m.lsts = append(m.lsts, lstVar{l: v.List()}); return nil })
		}
	case 6:
		h := m.pickMsg(arg)
		if h == nil {
			return false
		}
		reach := !h.detached
		switch arg % 3 {
		case 0:
			m.call(fmt.Sprintf("m.Field(%d).Int64(-9)", tag), reach, func() error { return h.v.Field(tag).Int64(-9) })
		case 1:
			if arg%5 == 4 {
				// a payload beyond the 16-bit offset range: later and earlier fields of this message need the big table form,
				// whichever order the tags are written in
				m.call(fmt.Sprintf("m.Field(%d).Bytes(<66000 bytes>)", tag), reach, func() error { return h.v.Field(tag).Bytes(c12big) })
				break
			}
			m.call(fmt.Sprintf("m.Field(%d).Bytes(..)", tag), reach, func() error { return h.v.Field(tag).Bytes([]byte{1, 2, 3}) })
		default:
			m.call(fmt.Sprintf("WriteField(m.Field(%d), 5, EncodeUint32)", tag), reach, func() error { return spec.WriteField(h.v.Field(tag), uint32(5), spec.EncodeUint32) })
		}
	case 7:
		h := m.pickMsg(arg)
		if h == nil {
			return false
		}
		m.call(fmt.Sprintf("m.Field(%d).Message()", tag), false, func() error {
			s := h.v.Field(tag).Message()
			m.msgs = append(m.msgs, &msgVar{v: s, copy: s, detached: h.detached, born: h.detached})
			return nil
		})
	case 8:
		h := m.pickMsg(arg)
		if h == nil {
			return false
		}
		m.call(fmt.Sprintf("m.Field(%d).List()", tag), false, func() error {
			m.lsts = append(m.lsts, lstVar{l: h.v.Field(tag).List(), detached: h.detached})
			return nil
		})
	case 9:
		h := m.pickMsg(arg)
		if h == nil {
			return false
		}
		raw := c12valid[arg%len(c12valid)]
		m.call(fmt.Sprintf("m.Field(%d).Any(% x)", tag, raw), !h.detached, func() error { return h.v.Field(tag).Any(raw) })
	case 10:
		h := m.pickMsg(arg)
		if h == nil {
			return false
		}
		if h.detached {
			m.stale++
		}
		reach := !h.detached
		m.call("m.End()", reach, func() error { return h.v.End() })
		h.detached = true
	case 11:
		h := m.pickMsg(arg)
		if h == nil {
			return false
		}
		if h.detached {
			m.stale++
		}
		reach := !h.detached
		var b []byte
		var err error
		m.call("m.Build()", reach, func() error { b, err = h.v.Build(); return err })
		h.detached = true
		if reach {
			m.checkBuilt("MessageWriter.Build", b, err)
		}
	case 12:
		// End/Build through a value copy taken before the variable was detached: reaches the writer
		h := m.pickMsg(arg)
		if h == nil {
			return false
		}
		if h.detached {
			m.stale++
		}
		c := h.copy
		if arg%2 == 0 {
			m.call("mcopy.End()", !h.born, func() error { return c.End() })
		} else {
			var b []byte
			var err error
			m.call("mcopy.Build()", !h.born, func() error { b, err = c.Build(); return err })
			if !h.born {
				m.checkBuilt("MessageWriter(copy).Build", b, err)
			}
		}
	case 13:
		h := m.pickMsg(arg)
		if h == nil {
			return false
		}
		m.call(fmt.Sprintf("m.HasField(%d)", tag), false, func() error { h.v.HasField(tag); h.copy.HasField(tag); return nil })
	case 14:
		h := m.pickMsg(arg)
		if h == nil {
			return false
		}
		src := spec.OpenMessage(c12valid[2])
		if arg%2 == 0 {
			m.call("m.Copy(msg)", !h.detached, func() error { return h.v.Copy(src) })
		} else {
			m.call("mcopy.Merge(msg)", !h.born, func() error { return h.copy.Merge(src) })
		}
	case 15:
		l, ok := m.pickList(arg)
		if !ok {
			return false
		}
		switch arg % 3 {
		case 0:
			m.call("l.Int16(3)", !l.detached, func() error { return l.l.Int16(3) })
		case 1:
			m.call(`l.String("e")`, !l.detached, func() error { return l.l.String("e") })
		default:
			m.call("ValueListWriter(l).Add(1.5)", !l.detached, func() error { return spec.NewValueListWriter(l.l, spec.EncodeFloat64).Add(1.5) })
		}
	case 16:
		l, ok := m.pickList(arg)
		if !ok {
			return false
		}
		m.call("l.List()", false, func() error { m.lsts = append(m.lsts, lstVar{l: l.l.List(), detached: l.detached}); return nil })
	case 17:
		l, ok := m.pickList(arg)
		if !ok {
			return false
		}
		m.call("l.Message()", false, func() error {
			s := l.l.Message()
			m.msgs = append(m.msgs, &msgVar{v: s, copy: s, detached: l.detached, born: l.detached})
			return nil
		})
	case 18:
		l, ok := m.pickList(arg)
		if !ok {
			return false
		}
		m.call("l.End()", !l.detached, func() error { return l.l.End() })
	case 19:
		l, ok := m.pickList(arg)
		if !ok {
			return false
		}
		var b []byte
		var err error
		m.call("l.Build()", !l.detached, func() error { b, err = l.l.Build(); return err })
		if !l.detached {
			m.checkBuilt("ListWriter.Build", b, err)
		}
	case 20:
		l, ok := m.pickList(arg)
		if !ok {
			return false
		}
		m.call("l.Len(); l.Err()", false, func() error {
			if n := l.l.Len(); n < 0 {
				return fmt.Errorf("negative Len %d", n)
			}
			l.l.Err()
			return nil
		})
	case 21:
		l, ok := m.pickList(arg)
		if !ok {
			return false
		}
		raw := c12valid[arg%len(c12valid)]
		m.call(fmt.Sprintf("l.Any(% x)", raw), !l.detached, func() error { return l.l.Any(raw) })
	case 22:
		m.call("w.Err()", false, func() error { m.w.Err(); return nil })
	case 23:
		if arg%2 == 0 {
			m.call("w.Reset(nil)", false, func() error { m.w.Reset(nil); m.e = nil; return nil })
		} else {
			m.call("w.Reset(buffer.New())", false, func() error { m.w.Reset(buffer.New()); m.e = nil; return nil })
		}
		// Reset returns the writer to a clean state: the sticky error is gone, old handles are stale
		m.e = nil
		m.freed = false
		for _, h := range m.msgs {
			_ = h
		}
		m.observeClean()
	case 24:
		m.call("w.Free()", false, func() error { m.w.Free(); return nil })
		m.freed = true
	case 25:
		h := m.pickMsg(arg)
		if h == nil {
			return false
		}
		m.call("m.Unwrap()", false, func() error { h.v.Unwrap(); return nil })
	case 26:
		// element written into a message writer's position / field into list: explicit nesting violations
		l, ok := m.pickList(arg)
		if !ok {
			return false
		}
		m.illegal++
		m.call("MessageListWriter(l).Add().Field(1).Bool(true) [left open]", !l.detached, func() error {
			mw := spec.NewMessageListWriter(l.l, func(w spec.MessageWriter) spec.MessageWriter { return w }).Add()
			m.msgs = append(m.msgs, &msgVar{v: mw, copy: mw, detached: l.detached, born: l.detached})
			return mw.Field(1).Bool(true)
		})
	case 27:
		v, ok := m.pickVal(arg)
		if !ok {
			return false
		}
		raw := c12valid[arg%len(c12valid)]
		m.call(fmt.Sprintf("v.Any(% x)", raw), true, func() error { return v.Any(raw) })
	case 28:
		m.call("w.Value().Float32(2)", true, func() error { return m.w.Value().Float32(2) })
	case 29:
		m.call("w.Free(); w.Free()", false, func() error { m.w.Free(); m.w.Free(); return nil })
		m.freed = true
	default:
		return false
	}
	return true
}

// observeClean: right after Reset, Err() must be nil.
func (m *machine) observeClean() {
	var cur error
	if pan := catch(func() { cur = m.w.Err() }); pan != "" {
		ev.Violation(m.t, c12, "panic:Err", m.kase(), "Err() panicked after Reset: %s", pan)
	}
	if cur != nil {
		ev.Violation(m.t, c12, "reset-not-clean", m.kase(), "Err() = %v right after Reset", cur)
	}
}

// finish: Free is safe in every state; after Reset a known-legal program gives the reference bytes.
func (m *machine) finish(tree *gen.Node, styleSeed uint64) {
	m.logf("-- finish: w.Reset(nil); <legal program>; w.Free(); w.Free()")
	pan := catch(func() { m.w.Reset(nil) })
	if pan != "" {
		ev.Violation(m.t, c12, "panic:Reset", m.kase(), "Reset panicked: %s", pan)
	}
	m.e = nil
	m.observeClean()
	x := prog.NewExec(&gen.PRNG{S: styleSeed})
	var b []byte
	var eff *gen.Node
	var err error
	pan = catch(func() { b, eff, err = x.BuildWith(m.w, tree) })
	if pan != "" || err != nil {
		ev.Violation(m.t, c12, "reset-not-clean", m.kase(), "legal program %s after Reset failed: err=%v panic=%s", tree.Render(120), err, pan)
	}
	want := refcodec.Encode(nil, eff)
	if !bytes.Equal(b, want) {
		ev.Violation(m.t, c12, "reset-not-clean", m.kase(), "legal program after Reset gives % x, fresh writer layout is % x", clip(b, 40), clip(want, 40))
	}
	if pan := catch(func() { m.w.Free(); m.w.Free() }); pan != "" {
		ev.Violation(m.t, c12, "panic:Free", m.kase(), "Free panicked: %s", pan)
	}
}

func (m *machine) nontrivial() bool {
	return m.illegal > 0 || m.stale > 0 || m.afterE > 0
}

// c12Weighted biases sequences towards programs that get somewhere (writes and
// End/Build on recent handles) so that successful root builds after misuse are common.
var c12Weighted = func() []int {
	w := map[int]int{3: 3, 6: 4, 15: 4, 7: 2, 8: 2, 16: 2, 17: 2, 10: 4, 11: 4, 18: 4, 19: 4, 4: 3, 12: 2, 23: 2}
	var out []int
	for a := 0; a < c12NumActions; a++ {
		k := w[a]
		if k == 0 {
			k = 1
		}
		for i := 0; i < k; i++ {
			out = append(out, a)
		}
	}
	return out
}()

func TestC12_StateMachine(t *testing.T) {
	ev.Rule(c12, "rapid: call sequences (avg ~14 steps) over one explicitly owned writer and all handles derived from it (live, stale copies, detached variables): 30 actions incl. Field/elem scalars, WriteField, nested Message/List, Any(valid), Copy/Merge, HasField, Len, Err, End/Build on any handle, Unwrap, Reset, Free, double Free; oracle = no panic, first error sticky in every reaching call and Err(), root Build ok => bytes parse completely, Free safe, Reset => legal program gives reference bytes; non-trivial = sequence contains a call after an error, a stale/detached handle use or a nesting violation; distinct by sequence hash")
	ev.Check(t, c12, func(rt *rapid.T) {
		m := newMachine(rt, rapid.Bool().Draw(rt, "withbuf"))
		steps := rapid.IntRange(1, 30).Draw(rt, "steps")
		var seq []int
		if first := rapid.IntRange(0, 3).Draw(rt, "firstaction"); first < 3 {
			m.step(first, 0) // usually begin with a root handle
			seq = append(seq, first*32)
		}
		for i := 0; i < steps; i++ {
			a := rapid.SampledFrom(c12Weighted).Draw(rt, "action")
			arg := 0
			if rapid.Bool().Draw(rt, "oldhandle") {
				arg = rapid.IntRange(0, 20).Draw(rt, "arg")
			} else {
				arg = 7 * rapid.IntRange(0, 2).Draw(rt, "arg0") // newest handle, varied value kind
			}
			if m.step(a, arg) {
				seq = append(seq, a*32+arg)
			}
		}
		tree, _ := gen.Tree(gen.RapidSrc{T: rt}, gen.Limits{MaxDepth: 3, MaxNodes: 12})
		m.finish(tree, rapid.Uint64().Draw(rt, "styleseed"))
		ev.Case(c12, ev.Hash(fmt.Sprint(seq)), m.nontrivial(), fmt.Sprintf("roots=%d", min(m.roots, 3)), fmt.Sprintf("after-error=%v", m.afterE > 0), fmt.Sprintf("stale=%v", m.stale > 0))
		if ev.WantSample(c12) {
			ev.Sample(c12, c12case{Calls: m.log})
		}
	})
}

// TestC12_Exhaustive enumerates every action sequence up to a length bound with a
// deterministic argument selector.
func TestC12_Exhaustive(t *testing.T) {
	shard, shards := ev.Shard()
	maxLen := 4
	if ev.Thorough() {
		maxLen = 5
	}
	ev.Rule(c12, fmt.Sprintf("bounded-exhaustive: every sequence of <=%d actions over the 30-action alphabet (arguments chosen by position: newest handle, tags {1,2}), same oracle", maxLen))
	tree := gen.Message(gen.F(2, gen.String("x")), gen.F(1, gen.List(gen.Int32(1), gen.Int32(2))))
	var count, nt int64
	seq := make([]int, 0, maxLen)
	var rec func(depth int)
	idx := 0
	rec = func(depth int) {
		if depth > 0 {
			idx++
			if idx%shards == shard {
				m := newMachine(t, idx%2 == 0)
				for i, a := range seq {
					m.step(a, i+depth)
				}
				m.finish(tree, uint64(idx))
				count++
				if m.nontrivial() {
					nt++
				}
			}
		}
		if depth == maxLen {
			return
		}
		for a := 0; a < c12NumActions; a++ {
			seq = append(seq, a)
			rec(depth + 1)
			seq = seq[:len(seq)-1]
		}
	}
	rec(0)
	ev.CaseEnum(c12, count, nt, "exhaustive-sequences")
	ev.Exhaustive(c12, fmt.Sprintf("all action sequences of length <=%d (shard %d/%d: %d)", maxLen, shard, shards, count))
}
