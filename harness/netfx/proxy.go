package netfx

import (
	"io"
	"net"
	"sync"
	"sync/atomic"
	"time"
)

// CutKind selects how a proxied connection is broken.
type CutKind int

const (
	CutNone  CutKind = iota
	CutFIN           // close both sockets gracefully
	CutRST           // SetLinger(0) then close: peer sees a reset
	CutHalf          // close only the write side towards the receiver of that direction
	CutStall         // stop forwarding for StallFor, then RST
	// CutHalfBlackhole: FIN towards the receiver of that direction while nothing that the
	// receiver sends is read any more (its socket buffers fill up and its writes block): a
	// middlebox that half-closes and goes deaf. The sockets are torn down only after
	// BlackholeFor (or when the proxy closes).
	CutHalfBlackhole
)

// Plan describes the fault for the next accepted connection.
type Plan struct {
	Kind     CutKind
	Dir      int // 0: cut measured on client->server bytes, 1: on server->client bytes
	After    int // forward exactly this many bytes in that direction, then cut
	StallFor time.Duration
	// BlackholeFor bounds CutHalfBlackhole (default 25 s, longer than every oracle bound).
	BlackholeFor time.Duration
}

// Proxy is a counting, fault-injecting TCP proxy in front of one backend address.
type Proxy struct {
	ln      net.Listener
	addr    string
	backend string

	mu      sync.Mutex
	plan    Plan
	refuse  bool
	latency time.Duration
	hold    chan struct{} // non-nil: accepted connections are not forwarded until Release
	small   bool          // small kernel receive buffers on both legs (back-pressure reaches the peers quickly)
	conns   map[*pconn]struct{}

	Accepted     atomic.Int64
	Live         atomic.Int64
	HighLive     atomic.Int64
	Bytes        [2]atomic.Int64  // forwarded bytes per direction (all connections)
	paused       [2]atomic.Int64  // unix nanos until which forwarding in that direction is suspended
	pauseChanged [2]chan struct{} // closed (and replaced) whenever the pause of that direction changes
	CutAt        atomic.Int64     // unix nanos of the last injected cut
	closed       atomic.Bool
}

type pconn struct {
	p      *Proxy
	c, s   net.Conn
	once   sync.Once
	fwd    [2]atomic.Int64
	plan   Plan
	cutOne sync.Once
	deaf   atomic.Bool   // CutHalfBlackhole: stop reading in both directions
	undeaf chan struct{} // closed when the connection is torn down
}

func NewProxy(backend string) (*Proxy, error) {
	ln, err := ListenLoopback()
	if err != nil {
		return nil, err
	}
	p := &Proxy{ln: ln, addr: ln.Addr().String(), backend: backend, conns: map[*pconn]struct{}{}}
	go p.acceptLoopOn(ln)
	return p, nil
}

func (p *Proxy) Addr() string { return p.addr }

// StopListening closes the listener: dials are refused by the kernel until StartListening.
func (p *Proxy) StopListening() {
	p.mu.Lock()
	ln := p.ln
	p.mu.Unlock()
	ln.Close()
}

// StartListening listens again on the same address.
func (p *Proxy) StartListening() error {
	var ln net.Listener
	var err error
	for i := 0; i < 200; i++ {
		ln, err = net.Listen("tcp", p.addr)
		if err == nil {
			break
		}
		time.Sleep(5 * time.Millisecond)
	}
	if err != nil {
		return err
	}
	p.mu.Lock()
	p.ln = ln
	p.mu.Unlock()
	go p.acceptLoopOn(ln)
	return nil
}

// SetBackend redirects new connections.
func (p *Proxy) SetBackend(addr string) {
	p.mu.Lock()
	p.backend = addr
	p.mu.Unlock()
}

// SetPlan sets the fault plan for the next accepted connection (later ones are not faulted).
func (p *Proxy) SetPlan(pl Plan) {
	p.mu.Lock()
	p.plan = pl
	p.mu.Unlock()
}

// Refuse makes the proxy close accepted connections immediately (dial "succeeds" at TCP
// level but the stream ends at once) when on.
func (p *Proxy) Refuse(on bool) {
	p.mu.Lock()
	p.refuse = on
	p.mu.Unlock()
}

// SetSmallBuffers makes the proxy use 16 KiB kernel receive buffers on both legs of later connections.
func (p *Proxy) SetSmallBuffers(on bool) {
	p.mu.Lock()
	p.small = on
	p.mu.Unlock()
}

// PauseDir suspends forwarding in one direction (0 client->server, 1 server->client) of every
// connection for d: bytes are neither lost nor reordered, the sender simply experiences back-pressure
// (its socket buffers, then its write queue, fill up).
func (p *Proxy) PauseDir(dir int, d time.Duration) {
	p.mu.Lock()
	if d <= 0 {
		p.paused[dir].Store(0)
	} else {
		p.paused[dir].Store(time.Now().Add(d).UnixNano())
	}
	// wake the forwarders that sleep on the old deadline
	if p.pauseChanged[dir] != nil {
		close(p.pauseChanged[dir])
	}
	p.pauseChanged[dir] = make(chan struct{})
	p.mu.Unlock()
}

func (p *Proxy) pauseChangedChan(dir int) chan struct{} {
	p.mu.Lock()
	defer p.mu.Unlock()
	if p.pauseChanged[dir] == nil {
		p.pauseChanged[dir] = make(chan struct{})
	}
	return p.pauseChanged[dir]
}

// Hold makes the proxy accept connections without forwarding a byte until Release: the
// peer's dial succeeds (its connection object exists) while nothing, in particular no
// fault, can happen to the stream yet.
func (p *Proxy) Hold() {
	p.mu.Lock()
	if p.hold == nil {
		p.hold = make(chan struct{})
	}
	p.mu.Unlock()
}

// Release ends Hold.
func (p *Proxy) Release() {
	p.mu.Lock()
	if p.hold != nil {
		close(p.hold)
		p.hold = nil
	}
	p.mu.Unlock()
}

func (p *Proxy) SetLatency(d time.Duration) {
	p.mu.Lock()
	p.latency = d
	p.mu.Unlock()
}

func (p *Proxy) acceptLoopOn(ln net.Listener) {
	for {
		c, err := ln.Accept()
		if err != nil {
			return
		}
		p.Accepted.Add(1)
		p.mu.Lock()
		refuse, backend, plan, lat, hold, small := p.refuse, p.backend, p.plan, p.latency, p.hold, p.small
		if !refuse {
			p.plan = Plan{} // a plan applies to the next accepted connection only
		}
		p.mu.Unlock()
		if refuse {
			rst(c)
			continue
		}
		go func() {
			if hold != nil {
				<-hold
			}
			if lat > 0 {
				time.Sleep(lat)
			}
			s, err := DialLoopback(backend, 5*time.Second)
			if err != nil {
				rst(c)
				return
			}
			pc := &pconn{p: p, c: c, s: s, plan: plan, undeaf: make(chan struct{})}
			if plan.Kind == CutHalfBlackhole || small {
				// small receive buffers: the peers' writes block after a few hundred KB instead of several MB
				if tc, ok := c.(*net.TCPConn); ok {
					tc.SetReadBuffer(16 << 10)
				}
				if ts, ok := s.(*net.TCPConn); ok {
					ts.SetReadBuffer(16 << 10)
				}
			}
			p.mu.Lock()
			if p.closed.Load() {
				p.mu.Unlock()
				c.Close()
				s.Close()
				return
			}
			p.conns[pc] = struct{}{}
			p.mu.Unlock()
			n := p.Live.Add(1)
			for {
				h := p.HighLive.Load()
				if n <= h || p.HighLive.CompareAndSwap(h, n) {
					break
				}
			}
			go pc.pipe(0, c, s)
			go pc.pipe(1, s, c)
		}()
	}
}

func rst(c net.Conn) {
	if tc, ok := c.(*net.TCPConn); ok {
		tc.SetLinger(0)
	}
	c.Close()
}

func (pc *pconn) close(kind CutKind) {
	pc.once.Do(func() {
		if kind == CutRST || kind == CutStall {
			rst(pc.c)
			rst(pc.s)
		} else {
			pc.c.Close()
			pc.s.Close()
		}
		close(pc.undeaf)
		pc.p.Live.Add(-1)
		pc.p.mu.Lock()
		delete(pc.p.conns, pc)
		pc.p.mu.Unlock()
	})
}

func (pc *pconn) pipe(dir int, src, dst net.Conn) {
	buf := make([]byte, 32<<10)
	for {
		if pc.deaf.Load() {
			<-pc.undeaf
			return
		}
		n, err := src.Read(buf)
		if pc.deaf.Load() {
			<-pc.undeaf
			return
		}
		for {
			changed := pc.p.pauseChangedChan(dir)
			until := pc.p.paused[dir].Load()
			wait := time.Until(time.Unix(0, until))
			if until == 0 || wait <= 0 {
				break
			}
			select {
			case <-time.After(wait):
			case <-changed:
			case <-pc.undeaf:
				return
			}
		}
		if n > 0 {
			b := buf[:n]
			if pc.plan.Kind != CutNone && pc.plan.Dir == dir {
				left := pc.plan.After - int(pc.fwd[dir].Load())
				if left < len(b) {
					if left > 0 {
						dst.Write(b[:left])
						pc.fwd[dir].Add(int64(left))
						pc.p.Bytes[dir].Add(int64(left))
					}
					pc.cut(dst)
					return
				}
			}
			if _, werr := dst.Write(b); werr != nil {
				pc.close(CutFIN)
				return
			}
			pc.fwd[dir].Add(int64(n))
			pc.p.Bytes[dir].Add(int64(n))
			if pc.plan.Kind != CutNone && pc.plan.Dir == dir && int(pc.fwd[dir].Load()) >= pc.plan.After && pc.plan.After >= 0 && err == nil {
				// exact boundary reached: cut before forwarding anything else
				if int(pc.fwd[dir].Load()) == pc.plan.After {
					pc.cut(dst)
					return
				}
			}
		}
		if err != nil {
			if err == io.EOF {
				// propagate half close, then full close when both directions are done
				if tc, ok := dst.(*net.TCPConn); ok {
					tc.CloseWrite()
				}
			}
			pc.close(CutFIN)
			return
		}
	}
}

func (pc *pconn) cut(dst net.Conn) {
	pc.cutOne.Do(func() {
		pc.p.CutAt.Store(time.Now().UnixNano())
		switch pc.plan.Kind {
		case CutHalf:
			if tc, ok := dst.(*net.TCPConn); ok {
				tc.CloseWrite()
			}
			// the other direction keeps flowing until the peers react; make sure the
			// connection does not linger forever
			go func() {
				time.Sleep(300 * time.Millisecond)
				pc.close(CutFIN)
			}()
		case CutHalfBlackhole:
			pc.deaf.Store(true)
			if tc, ok := dst.(*net.TCPConn); ok {
				tc.CloseWrite()
			}
			d := pc.plan.BlackholeFor
			if d == 0 {
				d = 25 * time.Second
			}
			go func() {
				select {
				case <-time.After(d):
					pc.close(CutRST)
				case <-pc.undeaf:
				}
			}()
		case CutStall:
			time.Sleep(pc.plan.StallFor)
			pc.p.CutAt.Store(time.Now().UnixNano())
			pc.close(CutRST)
		case CutRST:
			pc.close(CutRST)
		default:
			pc.close(CutFIN)
		}
	})
}

// EndBlackholes tears down the connections that are in the deaf state of CutHalfBlackhole
// (and only those: a replacement connection the client has opened meanwhile is left alone).
func (p *Proxy) EndBlackholes() {
	p.mu.Lock()
	var list []*pconn
	for pc := range p.conns {
		if pc.deaf.Load() {
			list = append(list, pc)
		}
	}
	p.mu.Unlock()
	for _, pc := range list {
		pc.close(CutRST)
	}
}

// PlannedLive returns the number of live connections that carry (or carried) a fault plan: 0 means
// that every injected fault has run to completion, whatever healthy connections exist besides.
func (p *Proxy) PlannedLive() int {
	p.mu.Lock()
	defer p.mu.Unlock()
	n := 0
	for pc := range p.conns {
		if pc.plan.Kind != CutNone {
			n++
		}
	}
	return n
}

// KillAll breaks every live connection.
func (p *Proxy) KillAll(kind CutKind) {
	p.mu.Lock()
	var list []*pconn
	for pc := range p.conns {
		list = append(list, pc)
	}
	p.mu.Unlock()
	p.CutAt.Store(time.Now().UnixNano())
	for _, pc := range list {
		pc.close(kind)
	}
}

func (p *Proxy) Close() {
	p.closed.Store(true)
	p.mu.Lock()
	ln := p.ln
	p.mu.Unlock()
	ln.Close()
	p.KillAll(CutRST)
}
