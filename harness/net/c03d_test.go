package net

// C03, stalled receiver: a full window (and the exempt opening/closing payloads on top of it) is
// pending unread on one channel before the receiver starts to read.

import (
	"fmt"
	"sync"
	"sync/atomic"
	"testing"
	"time"

	"github.com/basecomplextech/baselibrary/status"
	"github.com/basecomplextech/baselibrary/units"
	"github.com/basecomplextech/spec/mpx"
	"pgregory.net/rapid"

	"verifharness/ev"
	"verifharness/netfx"
)

func TestC03_StalledReceiver(t *testing.T) {
	ev.Rule(c03, "rapid, stalled receiver: window in {64 KiB, 1 MiB, default 16 MiB}; the client streams messages of one size (window/4096 .. window/16, so that at most ~4100 messages fill a window) plus a drawn opening payload until its Send blocks on the window, then SendAndClose with a payload; the server handler reads nothing until the sender has made no progress for 50 ms, then reads to the end; oracle: every message whose Send returned OK arrives, in order, with exact bytes, closing payload last; non-trivial = all")
	ev.CheckScaled(t, c03, 1, 40, func(rt *rapid.T) {
		w := []int{64 << 10, 1 << 20, 0}[rapid.IntRange(0, 2).Draw(rt, "window")]
		eff := w
		if eff == 0 {
			eff = 16 << 20
		}
		size := eff / []int{4096, 1024, 256, 16}[rapid.IntRange(0, 3).Draw(rt, "sizediv")]
		if size < 16 {
			size = 16
		}
		first := []int{16, size, eff / 2, eff}[rapid.IntRange(0, 3).Draw(rt, "first")]
		closing := []int{16, size, eff / 4}[rapid.IntRange(0, 2).Draw(rt, "closing")]
		compression := rapid.Bool().Draw(rt, "compression")
		kase := map[string]any{"window": w, "message_size": size, "opening_payload": first, "closing_payload": closing, "compression": compression}
		opts := mpx.Default()
		opts.Compression = compression
		if w > 0 {
			opts.ChannelWindowSize = units.Bytes(w)
		}
		log := netfx.NewLogger()
		var sendsOK atomic.Int64
		release := make(chan struct{})
		type result struct {
			n      int
			bad    string
			end    string
			closed bool
		}
		resc := make(chan result, 1)
		id := chanSeq.Add(1)
		handler := mpx.HandleFunc(func(ctx mpx.Context, ch mpx.Channel) status.Status {
			<-release
			var r result
			for {
				m, st := ch.Receive(ctx)
				if !st.OK() {
					r.end = string(st.Code)
					break
				}
				h, ok := netfx.ParseHeader(m)
				switch {
				case !ok:
					r.bad = fmt.Sprintf("message %d has no readable header (%d bytes)", r.n, len(m))
				case h.Conn == closeLane:
					if err := netfx.Verify(m, netfx.Header{Conn: closeLane, Chan: id}, closing); err != nil {
						r.bad = "closing payload: " + err.Error()
					}
					r.closed = true
					continue
				case r.closed:
					r.bad = fmt.Sprintf("message seq %d after the closing payload", h.Seq)
				case int(h.Seq) != r.n:
					r.bad = fmt.Sprintf("message seq %d arrived where seq %d was due (lost or reordered)", h.Seq, r.n)
				default:
					want := size
					if r.n == 0 {
						want = first
					}
					if err := netfx.Verify(m, netfx.Header{Chan: id, Seq: uint32(r.n)}, want); err != nil {
						r.bad = err.Error()
					}
				}
				if r.bad != "" {
					break
				}
				r.n++
			}
			resc <- r
			return status.OK
		})
		srv, err := netfx.StartServer(handler, log, opts)
		if err != nil {
			ev.InfraSkip(rt, c03, "%v", err)
		}
		defer srv.Stop()
		conn, st := mpx.Connect(ctxNone(), srv.Addr, log, opts)
		if !st.OK() {
			ev.InfraSkip(rt, c03, "connect: %v", st)
		}
		defer conn.Close()
		ch, st := conn.Channel(ctxNone())
		if !st.OK() {
			ev.InfraSkip(rt, c03, "channel: %v", st)
		}
		defer ch.Free()
		var wg sync.WaitGroup
		stop := make(chan struct{})
		wg.Add(1)
		go func() {
			defer wg.Done()
			for i := 0; i < 3*4096+8; i++ {
				select {
				case <-stop:
					return
				default:
				}
				sz := size
				if i == 0 {
					sz = first
				}
				if st := ch.Send(ctxNone(), netfx.Make(netfx.Header{Chan: id, Seq: uint32(i)}, sz)); !st.OK() {
					return
				}
				sendsOK.Add(1)
			}
		}()
		// wait until the sender stalls on the window
		for last, since := int64(-1), time.Now(); ; {
			if cur := sendsOK.Load(); cur != last {
				last, since = cur, time.Now()
			} else if time.Since(since) > 50*time.Millisecond {
				break
			}
			time.Sleep(2 * time.Millisecond)
		}
		stalledAt := sendsOK.Load()
		close(release)
		// the receiver now drains; let the sender push two more windows through, then stop it and close
		deadline := time.Now().Add(boundArrive())
		for sendsOK.Load() < stalledAt+int64(2*eff/size) && sendsOK.Load() < 3*4096 && time.Now().Before(deadline) {
			time.Sleep(time.Millisecond)
		}
		close(stop)
		wg.Wait()
		total := sendsOK.Load()
		cst := ch.SendAndClose(async30(), netfx.Make(netfx.Header{Conn: closeLane, Chan: id}, closing))
		var r result
		select {
		case r = <-resc:
		case <-time.After(hangTimeout()):
			ev.Violation(rt, c03, "stalled:hang", kase, "the handler did not reach the end of the channel within %v (sender stalled after %d messages, %d sent in total)", hangTimeout(), stalledAt, total)
		}
		kase["messages_sent_ok"] = total
		kase["messages_pending_when_the_receiver_started"] = stalledAt
		if r.bad != "" {
			ev.Violation(rt, c03, "stalled:delivery", kase, "%s (receiver started after %d messages were pending, %d sent in total, %d received)", r.bad, stalledAt, total, r.n)
		}
		if int64(r.n) < total {
			ev.Violation(rt, c03, "stalled:delivery", kase, "%d Sends returned OK but only %d messages were delivered before the status %q (the receiver started reading when %d messages were pending)", total, r.n, r.end, stalledAt)
		}
		if cst.OK() && !r.closed {
			ev.Violation(rt, c03, "stalled:delivery", kase, "SendAndClose returned OK but its %d-byte payload was not delivered", closing)
		}
		if p := libraryPanicText(log); p != "" {
			ev.Violation(rt, c03, "library-panic", kase, "%s", p)
		}
		ev.Case(c03, ev.Hash("stalled", w, size, first, closing, compression), true, "stalled-receiver", fmt.Sprintf("stalled:window=%d", w))
	})
}
