package lang

import (
	"bytes"
	"context"
	"fmt"
	"os"
	"os/exec"
	"path/filepath"
	"strings"
	"sync"
	"sync/atomic"
	"time"

	"verifharness/schema"
)

func repoDir() string {
	if d := os.Getenv("VERIF_REPO"); d != "" {
		return d
	}
	return "/repo"
}

func harnessDir() string {
	root := os.Getenv("VERIF_ROOT")
	if root == "" {
		root = "/verif"
	}
	return filepath.Join(root, "harness")
}

var (
	specBinOnce sync.Once
	specBinPath string
	specBinErr  error
	wsSeq       atomic.Int64
)

func scratchRoot() string {
	d := os.Getenv("VERIF_SCRATCH")
	if d == "" {
		d = filepath.Join(os.TempDir(), "verif-lang")
	}
	d = filepath.Join(d, "lang")
	os.MkdirAll(d, 0o755)
	return d
}

// specBin builds cmd/spec from the repository working tree once per process.
func specBin() (string, error) {
	specBinOnce.Do(func() {
		out := filepath.Join(scratchRoot(), "bin", "spec")
		os.MkdirAll(filepath.Dir(out), 0o755)
		cmd := exec.Command("go", "build", "-o", out, "./cmd/spec")
		cmd.Dir = repoDir()
		b, err := cmd.CombinedOutput()
		if err != nil {
			specBinErr = fmt.Errorf("build cmd/spec: %v\n%s", err, b)
			return
		}
		specBinPath = out
	})
	return specBinPath, specBinErr
}

// Workspace is a scratch Go module holding schema packages and their generated code.
type Workspace struct {
	Dir    string
	Module string
}

func NewWorkspace(module string) (*Workspace, error) {
	dir := filepath.Join(scratchRoot(), fmt.Sprintf("ws%d-%d", os.Getpid(), wsSeq.Add(1)))
	if err := os.MkdirAll(dir, 0o755); err != nil {
		return nil, err
	}
	gomod := fmt.Sprintf("module %s\n\ngo 1.24\n\nrequire (\n\tgithub.com/basecomplextech/baselibrary v0.0.0-20250218120829-9ca66e53fd5f\n\tgithub.com/basecomplextech/spec v0.0.0\n\tpgregory.net/rapid v1.3.0\n\tverifharness v0.0.0\n)\n\nreplace github.com/basecomplextech/spec => %s\n\nreplace verifharness => %s\n", module, repoDir(), harnessDir())
	if err := os.WriteFile(filepath.Join(dir, "go.mod"), []byte(gomod), 0o644); err != nil {
		return nil, err
	}
	sum, err := os.ReadFile(filepath.Join(harnessDir(), "go.sum"))
	if err != nil {
		return nil, err
	}
	if err := os.WriteFile(filepath.Join(dir, "go.sum"), sum, 0o644); err != nil {
		return nil, err
	}
	return &Workspace{Dir: dir, Module: module}, nil
}

func (w *Workspace) Remove() { os.RemoveAll(w.Dir) }

// WritePackage writes the schema files of one package (removing previous content).
func (w *Workspace) WritePackage(p *schema.Package, st schema.Style) error {
	dir := filepath.Join(w.Dir, p.ID)
	os.RemoveAll(dir)
	if err := os.MkdirAll(dir, 0o755); err != nil {
		return err
	}
	for _, f := range p.Files {
		if err := os.WriteFile(filepath.Join(dir, f.Name), []byte(schema.Render(f, st)), 0o644); err != nil {
			return err
		}
	}
	return nil
}

// RewriteSources overwrites the schema sources of a package and leaves everything else in its
// directory (in particular the output of an earlier generator run) in place.
func (w *Workspace) RewriteSources(p *schema.Package, st schema.Style) error {
	dir := filepath.Join(w.Dir, p.ID)
	for _, f := range p.Files {
		if err := os.WriteFile(filepath.Join(dir, f.Name), []byte(schema.Render(f, st)), 0o644); err != nil {
			return err
		}
	}
	return nil
}

type genResult struct {
	Out      string
	Exit     int
	TimedOut bool
	Panic    bool
	Dur      time.Duration
}

// Generate runs the real `spec generate` on one package directory.
func (w *Workspace) Generate(pkgID string, dst string) genResult {
	bin, err := specBin()
	if err != nil {
		return genResult{Out: err.Error(), Exit: -2}
	}
	ctx, cancel := context.WithTimeout(context.Background(), 30*time.Second)
	defer cancel()
	args := []string{"generate", "-i", w.Dir, pkgID}
	if dst != "" {
		args = append(args, dst)
	}
	cmd := exec.CommandContext(ctx, bin, args...)
	cmd.Dir = w.Dir
	var buf bytes.Buffer
	cmd.Stdout, cmd.Stderr = &buf, &buf
	t0 := time.Now()
	err = cmd.Run()
	r := genResult{Out: buf.String(), Dur: time.Since(t0)}
	if ctx.Err() != nil {
		r.TimedOut = true
		r.Exit = -1
		return r
	}
	if err != nil {
		r.Exit = 1
		if ee, ok := err.(*exec.ExitError); ok {
			r.Exit = ee.ExitCode()
		}
	}
	r.Panic = strings.Contains(r.Out, "panic:") || strings.Contains(r.Out, "goroutine 1 [running]") || strings.Contains(r.Out, "runtime error")
	return r
}

// GoBuild compiles the given package directories of the workspace.
func (w *Workspace) GoBuild(pkgIDs ...string) (string, bool) {
	args := []string{"build"}
	for _, id := range pkgIDs {
		args = append(args, "./"+id)
	}
	cmd := exec.Command("go", args...)
	cmd.Dir = w.Dir
	b, err := cmd.CombinedOutput()
	return string(b), err == nil
}

// GoVetless runs `go test` for package directories with extra test-binary arguments.
func (w *Workspace) GoTest(timeout time.Duration, testArgs []string, pkgIDs ...string) (string, bool, bool) {
	args := []string{"test", "-vet=off", "-count=1"}
	for _, id := range pkgIDs {
		args = append(args, "./"+id)
	}
	args = append(args, testArgs...)
	ctx, cancel := context.WithTimeout(context.Background(), timeout)
	defer cancel()
	cmd := exec.CommandContext(ctx, "go", args...)
	cmd.Dir = w.Dir
	b, err := cmd.CombinedOutput()
	return string(b), err == nil, ctx.Err() != nil
}

func readGenerated(dir string) (map[string]string, error) {
	out := map[string]string{}
	ents, err := os.ReadDir(dir)
	if err != nil {
		return nil, err
	}
	for _, e := range ents {
		if strings.HasSuffix(e.Name(), "_generated.go") {
			b, err := os.ReadFile(filepath.Join(dir, e.Name()))
			if err != nil {
				return nil, err
			}
			out[e.Name()] = string(b)
		}
	}
	return out, nil
}

func setSources(set *schema.Set) string {
	var sb strings.Builder
	for _, p := range set.Pkgs {
		for _, f := range p.Files {
			fmt.Fprintf(&sb, "// ---- %s/%s ----\n%s\n", p.ID, f.Name, schema.Render(f, schema.Style{}))
		}
	}
	s := sb.String()
	if len(s) > 6000 {
		s = s[:6000] + "…"
	}
	return s
}
