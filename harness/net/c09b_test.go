package net

import (
	"fmt"
	"sync"
	"sync/atomic"
	"testing"
	"time"

	"github.com/basecomplextech/baselibrary/status"
	"github.com/basecomplextech/spec/mpx"
	"pgregory.net/rapid"

	"verifharness/ev"
	"verifharness/netfx"
)

// cancelFunc adapts a function to the context callback interface.
type cancelFunc struct{ f func() }

func (c *cancelFunc) OnCancelled(status.Status) { c.f() }

type c09openCase struct {
	Existing  int    `json:"existing_channels"`
	Openers   int    `json:"opener_goroutines"`
	Callbacks bool   `json:"cancel_callbacks_open_channels"`
	Cut       string `json:"cut"`
	DelayUs   int    `json:"cut_delay_us"`
	OKTotal   int64  `json:"channel_calls_ok"`
	OKAfter   int64  `json:"channel_calls_ok_after_cut"`
	Failure   string `json:"failure,omitempty"`
}

// TestC09_OpenWhileFailing: Channel calls race with the failure of their connection. Whatever such a
// call returns, the transport is gone: a call that returned OK handed out a channel of a failed
// connection, so its context must be cancelled and a Receive blocked on it must return non-OK.
func TestC09_OpenWhileFailing(t *testing.T) {
	ev.Rule(c09, "open-while-failing: an mpx connection with 0..3000 open channels (handlers blocked on their contexts) is cut by the proxy (reset / FIN) after a drawn delay while 1..6 goroutines keep calling Conn.Channel, and (drawn) while cancel callbacks of the existing channels' contexts call Conn.Channel themselves; oracle: every Channel call returns within the bound; for every call that returned OK, the channel's context is cancelled and a Receive blocked on it returns non-OK within the bound after the cut, and the same for the existing channels; Channel calls that begin 300 ms after the cut return non-OK; non-trivial = at least one Channel call returned OK at or after the moment of the cut or from a callback; distinct by (shape, counts) hash")
	srv, err := netfx.StartServer(mpx.HandleFunc(func(ctx mpx.Context, ch mpx.Channel) status.Status {
		<-ctx.Wait()
		return status.OK
	}), netfx.NewLogger(), mpx.Default())
	if err != nil {
		t.Fatalf("infrastructure: %v", err)
	}
	defer srv.Stop()
	ev.CheckScaled(t, c09, 1, 10, func(rt *rapid.T) {
		defer drawSched(rt).install()() // seeded yields at the library's schedule points
		existing := []int{200, 16, 1000, 1, 3000, 0}[rapid.IntRange(0, 5).Draw(rt, "existing")]
		openers := rapid.IntRange(1, 6).Draw(rt, "openers")
		callbacks := existing > 0 && rapid.Bool().Draw(rt, "callbacks")
		kind := []netfx.CutKind{netfx.CutRST, netfx.CutFIN}[rapid.IntRange(0, 1).Draw(rt, "cut")]
		delay := rapid.IntRange(0, 3000).Draw(rt, "delayus")
		kase := &c09openCase{Existing: existing, Openers: openers, Callbacks: callbacks, Cut: map[netfx.CutKind]string{netfx.CutRST: "reset", netfx.CutFIN: "fin"}[kind], DelayUs: delay}
		px, err := netfx.NewProxy(srv.Addr)
		if err != nil {
			ev.InfraSkip(rt, c09, "%v", err)
		}
		defer px.Close()
		opts := mpx.Default()
		opts.Compression = false
		log := netfx.NewLogger()
		conn, st := mpx.Connect(async30(), px.Addr(), log, opts)
		if !st.OK() {
			ev.InfraSkip(rt, c09, "connect: %v", st)
		}
		defer conn.Close()
		// the cut must find the connection at the proxy (Connect returns as soon as the socket exists)
		for dl := time.Now().Add(5 * time.Second); px.Live.Load() < 1; {
			if time.Now().After(dl) {
				ev.InfraSkip(rt, c09, "connection did not reach the proxy")
			}
			time.Sleep(200 * time.Microsecond)
		}
		var mu sync.Mutex
		var got []mpx.Channel // every channel a Channel call returned OK
		defer func() {
			mu.Lock()
			all := append([]mpx.Channel(nil), got...)
			mu.Unlock()
			for _, ch := range all { // not under the lock: freeing cancels contexts, callbacks call keep
				ch.Free()
			}
		}()
		keep := func(ch mpx.Channel) {
			mu.Lock()
			got = append(got, ch)
			mu.Unlock()
		}
		var cutAt atomic.Int64
		var okAfter, okCallback atomic.Int64
		var slow atomic.Value
		for i := 0; i < existing; i++ {
			ch, st := conn.Channel(async30())
			if !st.OK() {
				ev.InfraSkip(rt, c09, "open existing channel %d: %v", i, st)
			}
			keep(ch)
			// the server sees a channel with its first message only; send one byte
			if st := ch.Send(async30(), []byte{1}); !st.OK() {
				ev.InfraSkip(rt, c09, "send on existing channel %d: %v", i, st)
			}
			if callbacks && i%4 == 0 {
				ch.Context().AddCallback(&cancelFunc{func() {
					t0 := time.Now()
					c2, st := conn.Channel(async30())
					if d := time.Since(t0); d > boundArrive() {
						slow.Store(fmt.Sprintf("Conn.Channel called from a cancel callback took %v", d))
					}
					if st.OK() {
						okCallback.Add(1)
						keep(c2)
					}
				}})
			}
		}
		stop := make(chan struct{})
		var wg sync.WaitGroup
		for g := 0; g < openers; g++ {
			wg.Add(1)
			go func() {
				defer wg.Done()
				for n := 0; n < 1500; n++ {
					select {
					case <-stop:
						return
					default:
					}
					t0 := time.Now()
					ch, st := conn.Channel(async30())
					if d := time.Since(t0); d > boundArrive() {
						slow.Store(fmt.Sprintf("Conn.Channel took %v", d))
					}
					if !st.OK() {
						if cutAt.Load() != 0 {
							return
						}
						continue
					}
					if c := cutAt.Load(); c != 0 && t0.UnixNano() >= c-int64(200*time.Microsecond) {
						okAfter.Add(1)
					}
					keep(ch)
				}
			}()
		}
		time.Sleep(time.Duration(delay) * time.Microsecond)
		cutAt.Store(time.Now().UnixNano())
		px.KillAll(kind)
		time.Sleep(300 * time.Millisecond)
		close(stop)
		if !waitGroupTimeout(&wg, hangTimeout()) {
			kase.Failure = "openers did not finish"
			ev.Violation(rt, c09, "open-while-failing:call-hangs", kase, "Conn.Channel calls racing the failure of their connection did not return:\n%s", goroutineDump())
		}
		fail := func(key, format string, a ...any) {
			kase.Failure = fmt.Sprintf(format, a...)
			mu.Lock()
			kase.OKTotal = int64(len(got))
			mu.Unlock()
			kase.OKAfter = okAfter.Load() + okCallback.Load()
			ev.Violation(rt, c09, key, kase, format, a...)
		}
		if s, _ := slow.Load().(string); s != "" {
			fail("open-while-failing:call-slow", "%s", s)
		}
		// a call that begins well after the failure cannot succeed
		if ch, st := conn.Channel(async30()); st.OK() {
			keep(ch)
			fail("open-while-failing:ok-after-failure", "Conn.Channel returned OK 300 ms after its connection was cut")
		}
		mu.Lock()
		all := append([]mpx.Channel(nil), got...)
		mu.Unlock()
		// every channel handed out is a channel of a failed connection
		deadline := time.Now().Add(boundArrive())
		for i, ch := range all {
			select {
			case <-ch.Context().Wait():
			case <-time.After(time.Until(deadline)):
				what := "existing before the cut"
				if i >= existing {
					what = "returned OK by a Channel call that raced the cut"
				}
				fail("open-while-failing:context-not-cancelled", "channel #%d of %d (%s): its connection was cut %v ago and its context is not cancelled", i, len(all), what, time.Since(time.Unix(0, cutAt.Load())).Round(time.Millisecond))
			}
		}
		// blocked Receive returns non-OK (sampled: the last channels are the ones that raced)
		lo := len(all) - 64
		if lo < 0 {
			lo = 0
		}
		for i := lo; i < len(all); i++ {
			done := make(chan status.Status, 1)
			go func(ch mpx.Channel) {
				_, st := ch.Receive(async30())
				done <- st
			}(all[i])
			select {
			case st := <-done:
				if st.OK() {
					fail("open-while-failing:message-from-nowhere", "channel #%d: Receive returned OK after the connection was cut (the server never sends)", i)
				}
			case <-time.After(boundArrive()):
				fail("open-while-failing:call-hangs", "channel #%d of %d: Receive on a channel of a cut connection still blocked after %v", i, len(all), boundArrive())
			}
		}
		if p := libraryPanicText(log); p != "" {
			fail("open-while-failing:library-panic", "%s", p)
		}
		nt := okAfter.Load()+okCallback.Load() > 0
		ev.Label(c09, "open-while-failing:ok-at-or-after-cut", okAfter.Load())
		ev.Label(c09, "open-while-failing:ok-from-callback", okCallback.Load())
		ev.Case(c09, ev.Hash("owf", existing, openers, callbacks, kind, delay, len(all)), nt, "open-while-failing", fmt.Sprintf("open-while-failing:existing=%d", existing))
		if ev.WantSample(c09) {
			kase.OKTotal, kase.OKAfter = int64(len(all)), okAfter.Load()+okCallback.Load()
			ev.Sample(c09, kase)
		}
	})
}
