package prog

import (
	"bytes"
	"fmt"
	"math"

	"github.com/basecomplextech/baselibrary/buffer"
	spec "github.com/basecomplextech/spec"

	"verifharness/gen"
)

// Reader checks what the public reader API returns for bytes against the expected tree.
type Reader struct {
	// Probes counts accessor evaluations.
	Probes int
	// AbsentSeed varies which absent tags are probed.
	AbsentSeed uint64
	// NoClone disables the Clone* re-checks (used when called on clones).
	NoClone bool
}

func typeCode(n *gen.Node, b []byte) (spec.Type, bool) {
	switch n.Kind {
	case gen.KBool:
		if n.I != 0 {
			return spec.TypeTrue, true
		}
		return spec.TypeFalse, true
	case gen.KByte:
		return spec.TypeByte, true
	case gen.KInt16:
		return spec.TypeInt16, true
	case gen.KInt32:
		return spec.TypeInt32, true
	case gen.KInt64:
		return spec.TypeInt64, true
	case gen.KUint16:
		return spec.TypeUint16, true
	case gen.KUint32:
		return spec.TypeUint32, true
	case gen.KUint64:
		return spec.TypeUint64, true
	case gen.KFloat32:
		return spec.TypeFloat32, true
	case gen.KFloat64:
		return spec.TypeFloat64, true
	case gen.KBin64:
		return spec.TypeBin64, true
	case gen.KBin128:
		return spec.TypeBin128, true
	case gen.KBin256:
		return spec.TypeBin256, true
	case gen.KBytes:
		return spec.TypeBytes, true
	case gen.KString:
		return spec.TypeString, true
	case gen.KStruct:
		return spec.TypeStruct, true
	}
	return 0, false // containers: small or big form, checked elsewhere
}

// CheckRoot verifies that b is exactly the encoding of a value equal to n as seen
// through every public read path. It returns a description of the first mismatch.
func (r *Reader) CheckRoot(n *gen.Node, b []byte) error {
	v, sz, err := spec.ParseValue(b)
	if err != nil {
		return fmt.Errorf("ParseValue: %v", err)
	}
	if sz != len(b) {
		return fmt.Errorf("ParseValue consumed %d of %d bytes", sz, len(b))
	}
	if !bytes.Equal(v, b) {
		return fmt.Errorf("ParseValue returned different bytes")
	}
	t, ts, err := spec.DecodeTypeSize(b)
	if err != nil || ts != len(b) {
		return fmt.Errorf("DecodeTypeSize: type=%v size=%d err=%v, want size %d", t, ts, err, len(b))
	}
	ov := spec.OpenValue(b)
	if !bytes.Equal(ov, b) {
		return fmt.Errorf("OpenValue returned %d bytes of %d", len(ov), len(b))
	}
	return r.checkValue(n, b, "root")
}

func (r *Reader) checkValue(n *gen.Node, b []byte, path string) error {
	r.Probes++
	v := spec.Value(b)
	if want, ok := typeCode(n, b); ok {
		if got := v.Type(); got != want {
			return fmt.Errorf("%s: Type() = %v, want %v", path, got, want)
		}
	}
	bad := func(what string, got, want any, err error) error {
		return fmt.Errorf("%s: %s = %v (err=%v), want %v", path, what, got, err, want)
	}
	switch n.Kind {
	case gen.KBool:
		g, err := v.BoolErr()
		if err != nil || g != (n.I != 0) || v.Bool() != g {
			return bad("Bool", g, n.I != 0, err)
		}
	case gen.KByte:
		g, err := v.ByteErr()
		if err != nil || g != byte(n.I) || v.Byte() != g {
			return bad("Byte", g, n.I, err)
		}
	case gen.KInt16:
		g, err := v.Int16Err()
		if err != nil || int64(g) != n.I || v.Int16() != g {
			return bad("Int16", g, n.I, err)
		}
		if g64, err := v.Int64Err(); err != nil || g64 != n.I {
			return bad("Int64(int16)", g64, n.I, err)
		}
	case gen.KInt32:
		g, err := v.Int32Err()
		if err != nil || int64(g) != n.I || v.Int32() != g {
			return bad("Int32", g, n.I, err)
		}
		if g64, err := v.Int64Err(); err != nil || g64 != n.I {
			return bad("Int64(int32)", g64, n.I, err)
		}
	case gen.KInt64:
		g, err := v.Int64Err()
		if err != nil || g != n.I || v.Int64() != g {
			return bad("Int64", g, n.I, err)
		}
	case gen.KUint16:
		g, err := v.Uint16Err()
		if err != nil || uint64(g) != n.U || v.Uint16() != g {
			return bad("Uint16", g, n.U, err)
		}
	case gen.KUint32:
		g, err := v.Uint32Err()
		if err != nil || uint64(g) != n.U || v.Uint32() != g {
			return bad("Uint32", g, n.U, err)
		}
		if g64, err := v.Uint64Err(); err != nil || g64 != n.U {
			return bad("Uint64(uint32)", g64, n.U, err)
		}
	case gen.KUint64:
		g, err := v.Uint64Err()
		if err != nil || g != n.U || v.Uint64() != g {
			return bad("Uint64", g, n.U, err)
		}
	case gen.KFloat32:
		g, err := v.Float32Err()
		want := math.Float32frombits(uint32(n.U))
		if err != nil || !(math.Float32bits(g) == uint32(n.U) || (want != want && g != g)) {
			return bad("Float32", math.Float32bits(g), uint32(n.U), err)
		}
	case gen.KFloat64:
		g, err := v.Float64Err()
		if err != nil || math.Float64bits(g) != n.U {
			return bad("Float64", math.Float64bits(g), n.U, err)
		}
	case gen.KBin64:
		g, err := v.Bin64Err()
		if err != nil || g != B64(n.B) || v.Bin64() != g {
			return bad("Bin64", g, n.B, err)
		}
	case gen.KBin128:
		g, err := v.Bin128Err()
		if err != nil || g != B128(n.B) || v.Bin128() != g {
			return bad("Bin128", g, n.B, err)
		}
	case gen.KBin256:
		g, err := v.Bin256Err()
		if err != nil || g != B256(n.B) || v.Bin256() != g {
			return bad("Bin256", g, n.B, err)
		}
	case gen.KBytes:
		g, err := v.BytesErr()
		if err != nil || !bytes.Equal(g, n.B) || !bytes.Equal(v.Bytes(), n.B) {
			return bad("Bytes", fmt.Sprintf("len %d", len(g)), fmt.Sprintf("len %d", len(n.B)), err)
		}
	case gen.KString:
		g, err := v.StringErr()
		if err != nil || string(g) != string(n.B) || string(v.String()) != string(n.B) {
			return bad("String", fmt.Sprintf("len %d", len(g)), fmt.Sprintf("len %d", len(n.B)), err)
		}
	case gen.KStruct:
		ds, sz, err := spec.DecodeStruct(b)
		if err != nil || sz != len(b) {
			return bad("DecodeStruct size", sz, len(b), err)
		}
		body := b[:len(b)-(sz-ds)]
		if len(body) != ds {
			return bad("DecodeStruct dataSize", ds, len(body), nil)
		}
		// members are read back to front, as generated struct decoders do
		for i := len(n.Elems) - 1; i >= 0; i-- {
			_, ms, err := spec.DecodeTypeSize(body)
			if err != nil || ms <= 0 || ms > len(body) {
				return bad(fmt.Sprintf("struct member %d size", i), ms, "<= body", err)
			}
			if err := r.checkValue(n.Elems[i], body[len(body)-ms:], fmt.Sprintf("%s.member[%d]", path, i)); err != nil {
				return err
			}
			// decoding with the member in place (prefix before it) must agree
			if err := r.checkValue(n.Elems[i], body, fmt.Sprintf("%s.member[%d]+prefix", path, i)); err != nil {
				return err
			}
			body = body[:len(body)-ms]
		}
		if len(body) != 0 {
			return fmt.Errorf("%s: %d unread struct bytes", path, len(body))
		}
	case gen.KList:
		return r.checkList(n, b, path)
	case gen.KMessage:
		return r.checkMessage(n, b, path)
	}
	return nil
}

func (r *Reader) checkList(n *gen.Node, b []byte, path string) error {
	l, sz, err := spec.ParseList(b)
	if err != nil || sz != len(b) {
		return fmt.Errorf("%s: ParseList size=%d err=%v, want %d", path, sz, err, len(b))
	}
	lo, err := spec.OpenListErr(b)
	if err != nil || lo.Len() != l.Len() || !bytes.Equal(lo.Raw(), b) {
		return fmt.Errorf("%s: OpenListErr disagrees with ParseList (err=%v)", path, err)
	}
	if vl, err := spec.Value(b).ListErr(); err != nil || vl.Len() != l.Len() {
		return fmt.Errorf("%s: Value.ListErr disagrees (err=%v)", path, err)
	}
	if !bytes.Equal(l.Raw(), b) {
		return fmt.Errorf("%s: List.Raw differs from input", path)
	}
	if l.Len() != len(n.Elems) {
		return fmt.Errorf("%s: List.Len() = %d, want %d", path, l.Len(), len(n.Elems))
	}
	if l.Empty() != (len(n.Elems) == 0) {
		return fmt.Errorf("%s: List.Empty() = %v with %d elements", path, l.Empty(), len(n.Elems))
	}
	t := spec.Value(b).Type()
	wantBig := len(n.Elems) > 255
	for i := range n.Elems {
		ev := l.Get(i)
		eb := l.GetBytes(i)
		if !bytes.Equal(ev, eb) {
			return fmt.Errorf("%s: Get(%d) and GetBytes(%d) differ", path, i, i)
		}
		if len(eb) == 0 {
			return fmt.Errorf("%s: element %d is empty", path, i)
		}
		if err := r.checkValue(n.Elems[i], eb, fmt.Sprintf("%s[%d]", path, i)); err != nil {
			return err
		}
	}
	_ = t
	_ = wantBig
	if !r.NoClone && len(b) < 1<<14 {
		c := l.Clone()
		if !bytes.Equal(c.Raw(), b) || c.Len() != l.Len() {
			return fmt.Errorf("%s: List.Clone differs", path)
		}
		c2 := l.CloneTo(make([]byte, 0, 3))
		if !bytes.Equal(c2.Raw(), b) || c2.Len() != l.Len() {
			return fmt.Errorf("%s: List.CloneTo differs", path)
		}
	}
	return nil
}

func (r *Reader) checkMessage(n *gen.Node, b []byte, path string) error {
	m, sz, err := spec.ParseMessage(b)
	if err != nil || sz != len(b) {
		return fmt.Errorf("%s: ParseMessage size=%d err=%v, want %d", path, sz, err, len(b))
	}
	mo, err := spec.OpenMessageErr(b)
	if err != nil || mo.Fields() != m.Fields() || !bytes.Equal(mo.Raw(), b) {
		return fmt.Errorf("%s: OpenMessageErr disagrees with ParseMessage (err=%v)", path, err)
	}
	if vm, err := spec.Value(b).MessageErr(); err != nil || vm.Fields() != m.Fields() {
		return fmt.Errorf("%s: Value.MessageErr disagrees (err=%v)", path, err)
	}
	if !bytes.Equal(m.Raw(), b) || m.Len() != len(b) {
		return fmt.Errorf("%s: Message.Raw/Len differ from input", path)
	}
	if m.Fields() != len(n.Fields) {
		return fmt.Errorf("%s: Fields() = %d, want %d", path, m.Fields(), len(n.Fields))
	}
	if m.Empty() != (len(n.Fields) == 0) {
		return fmt.Errorf("%s: Empty() = %v with %d fields", path, m.Empty(), len(n.Fields))
	}
	want := make(map[uint16]*gen.Node, len(n.Fields))
	for _, f := range n.Fields {
		want[f.Tag] = f.V
	}
	if len(want) != len(n.Fields) {
		return fmt.Errorf("%s: harness error: duplicate tags in expected tree", path)
	}
	// table walk
	prev := -1
	for i := 0; i < m.Fields(); i++ {
		tag, ok := m.TagAt(i)
		if !ok {
			return fmt.Errorf("%s: TagAt(%d) not ok", path, i)
		}
		if int(tag) <= prev {
			return fmt.Errorf("%s: TagAt not strictly ascending at %d (%d after %d)", path, i, tag, prev)
		}
		prev = int(tag)
		w, ok := want[tag]
		if !ok {
			return fmt.Errorf("%s: tag %d present but never written", path, tag)
		}
		fa := m.FieldAt(i)
		if err := r.checkValue(w, fa, fmt.Sprintf("%s.at(%d)#%d", path, i, tag)); err != nil {
			return err
		}
	}
	if _, ok := m.TagAt(m.Fields()); ok {
		return fmt.Errorf("%s: TagAt(Fields()) reports ok", path)
	}
	if _, ok := m.TagAt(-1); ok {
		return fmt.Errorf("%s: TagAt(-1) reports ok", path)
	}
	if m.FieldAt(m.Fields()) != nil || m.FieldAt(-1) != nil {
		return fmt.Errorf("%s: FieldAt out of range is not nil", path)
	}
	// by tag
	for _, f := range n.Fields {
		if !m.HasField(f.Tag) {
			return fmt.Errorf("%s: HasField(%d) = false for a written field", path, f.Tag)
		}
		fv := m.Field(f.Tag)
		if fv == nil {
			return fmt.Errorf("%s: Field(%d) = nil for a written field", path, f.Tag)
		}
		raw := m.FieldRaw(f.Tag)
		if len(raw) < len(fv) || !bytes.Equal(raw[len(raw)-len(fv):], fv) {
			return fmt.Errorf("%s: FieldRaw(%d) does not end with Field(%d)", path, f.Tag, f.Tag)
		}
		if err := r.checkTyped(m, f.Tag, f.V, path); err != nil {
			return err
		}
	}
	// absent tags: neighbours, extremes, sampled
	probe := func(tag uint16) error {
		if _, ok := want[tag]; ok {
			return nil
		}
		r.Probes++
		if m.HasField(tag) {
			return fmt.Errorf("%s: HasField(%d) = true for a tag never written", path, tag)
		}
		if m.Field(tag) != nil || m.FieldRaw(tag) != nil {
			return fmt.Errorf("%s: Field/FieldRaw(%d) non-nil for a tag never written", path, tag)
		}
		if m.Bool(tag) || m.Byte(tag) != 0 || m.Int16(tag) != 0 || m.Int32(tag) != 0 || m.Int64(tag) != 0 ||
			m.Uint16(tag) != 0 || m.Uint32(tag) != 0 || m.Uint64(tag) != 0 || m.Float32(tag) != 0 || m.Float64(tag) != 0 ||
			!m.Bin64(tag).IsZero() || !m.Bin128(tag).IsZero() || !m.Bin256(tag).IsZero() ||
			len(m.Bytes(tag)) != 0 || len(m.String(tag)) != 0 || m.List(tag).Len() != 0 || m.Message(tag).Fields() != 0 {
			return fmt.Errorf("%s: typed accessor of absent tag %d is not zero", path, tag)
		}
		if _, err := m.Int64Err(tag); err != nil {
			return fmt.Errorf("%s: Int64Err(absent %d) = %v", path, tag, err)
		}
		if _, err := m.StringErr(tag); err != nil {
			return fmt.Errorf("%s: StringErr(absent %d) = %v", path, tag, err)
		}
		if _, err := m.MessageErr(tag); err != nil {
			return fmt.Errorf("%s: MessageErr(absent %d) = %v", path, tag, err)
		}
		if _, err := m.ListErr(tag); err != nil {
			return fmt.Errorf("%s: ListErr(absent %d) = %v", path, tag, err)
		}
		return nil
	}
	for _, f := range n.Fields {
		if len(n.Fields) > 64 && f.Tag%7 != 0 {
			continue
		}
		if err := probe(f.Tag - 1); err != nil {
			return err
		}
		if err := probe(f.Tag + 1); err != nil {
			return err
		}
	}
	s := r.AbsentSeed
	for _, tag := range []uint16{0, 1, 255, 256, 65535, uint16(s), uint16(s >> 16), uint16(s >> 32), uint16(s>>48) & 0x1ff} {
		if err := probe(tag); err != nil {
			return err
		}
	}
	if !r.NoClone && len(b) < 1<<14 {
		sub := &Reader{NoClone: true, AbsentSeed: r.AbsentSeed}
		for name, c := range map[string]spec.Message{
			"Clone":         m.Clone(),
			"CloneTo":       m.CloneTo(make([]byte, 0, 5)),
			"CloneToBuffer": m.CloneToBuffer(buffer.New()),
		} {
			if len(n.Fields) == 0 && len(c.Raw()) == 0 {
				continue
			}
			if !bytes.Equal(c.Raw(), b) {
				return fmt.Errorf("%s: %s bytes differ", path, name)
			}
			if c.Fields() != m.Fields() {
				return fmt.Errorf("%s: %s has %d fields, want %d", path, name, c.Fields(), m.Fields())
			}
		}
		r.Probes += sub.Probes
	}
	return nil
}

// checkTyped reads a field through the typed accessor of the message.
func (r *Reader) checkTyped(m spec.Message, tag uint16, n *gen.Node, path string) error {
	r.Probes++
	bad := func(what string, got, want any, err error) error {
		return fmt.Errorf("%s: Message.%s(%d) = %v (err=%v), want %v", path, what, tag, got, err, want)
	}
	switch n.Kind {
	case gen.KBool:
		g, err := m.BoolErr(tag)
		if err != nil || g != (n.I != 0) || m.Bool(tag) != g {
			return bad("Bool", g, n.I != 0, err)
		}
	case gen.KByte:
		g, err := m.ByteErr(tag)
		if err != nil || g != byte(n.I) || m.Byte(tag) != g {
			return bad("Byte", g, n.I, err)
		}
	case gen.KInt16:
		g, err := m.Int16Err(tag)
		if err != nil || int64(g) != n.I || m.Int16(tag) != g {
			return bad("Int16", g, n.I, err)
		}
	case gen.KInt32:
		g, err := m.Int32Err(tag)
		if err != nil || int64(g) != n.I || m.Int32(tag) != g {
			return bad("Int32", g, n.I, err)
		}
	case gen.KInt64:
		g, err := m.Int64Err(tag)
		if err != nil || g != n.I || m.Int64(tag) != g {
			return bad("Int64", g, n.I, err)
		}
	case gen.KUint16:
		g, err := m.Uint16Err(tag)
		if err != nil || uint64(g) != n.U || m.Uint16(tag) != g {
			return bad("Uint16", g, n.U, err)
		}
	case gen.KUint32:
		g, err := m.Uint32Err(tag)
		if err != nil || uint64(g) != n.U || m.Uint32(tag) != g {
			return bad("Uint32", g, n.U, err)
		}
	case gen.KUint64:
		g, err := m.Uint64Err(tag)
		if err != nil || g != n.U || m.Uint64(tag) != g {
			return bad("Uint64", g, n.U, err)
		}
	case gen.KFloat32:
		g, err := m.Float32Err(tag)
		want := math.Float32frombits(uint32(n.U))
		if err != nil || !(math.Float32bits(g) == uint32(n.U) || (want != want && g != g)) {
			return bad("Float32", math.Float32bits(g), uint32(n.U), err)
		}
	case gen.KFloat64:
		g, err := m.Float64Err(tag)
		if err != nil || math.Float64bits(g) != n.U {
			return bad("Float64", math.Float64bits(g), n.U, err)
		}
	case gen.KBin64:
		g, err := m.Bin64Err(tag)
		if err != nil || g != B64(n.B) || m.Bin64(tag) != g {
			return bad("Bin64", g, n.B, err)
		}
	case gen.KBin128:
		g, err := m.Bin128Err(tag)
		if err != nil || g != B128(n.B) || m.Bin128(tag) != g {
			return bad("Bin128", g, n.B, err)
		}
	case gen.KBin256:
		g, err := m.Bin256Err(tag)
		if err != nil || g != B256(n.B) || m.Bin256(tag) != g {
			return bad("Bin256", g, n.B, err)
		}
	case gen.KBytes:
		g, err := m.BytesErr(tag)
		if err != nil || !bytes.Equal(g, n.B) || !bytes.Equal(m.Bytes(tag), n.B) {
			return bad("Bytes", len(g), len(n.B), err)
		}
	case gen.KString:
		g, err := m.StringErr(tag)
		if err != nil || string(g) != string(n.B) || string(m.String(tag)) != string(n.B) {
			return bad("String", len(g), len(n.B), err)
		}
	case gen.KList:
		g, err := m.ListErr(tag)
		if err != nil || g.Len() != len(n.Elems) || m.List(tag).Len() != len(n.Elems) {
			return bad("List.Len", g.Len(), len(n.Elems), err)
		}
	case gen.KMessage:
		g, err := m.MessageErr(tag)
		if err != nil || g.Fields() != len(n.Fields) || m.Message(tag).Fields() != len(n.Fields) {
			return bad("Message.Fields", g.Fields(), len(n.Fields), err)
		}
	}
	return nil
}

// CheckTyped exposes the typed-accessor check of one message field.
func CheckTyped(r *Reader, m spec.Message, tag uint16, n *gen.Node) error {
	return r.checkTyped(m, tag, n, "msg")
}
