"""Per-property configuration of the driver (./check)."""

PROP_ORDER = ["C%02d" % i for i in range(1, 21)]

CHECKS = {}

CHECKS["C10"] = dict(
    pkg="codec", run="^TestC10_", level="exploration",
    quick=dict(shards=1, checks=5000, timeout=300),
    thorough=dict(shards=16, checks=40000, timeout=1500),
    assumptions=[
        "float64->float32 narrowing of in-range inexact values may round or error (weakest reading, DESIGN C10)",
        "signalling float32 NaNs may be quieted by the float32->float64->float32 path of the decoder; NaN-ness is required, payload only for quiet NaNs",
    ],
)
