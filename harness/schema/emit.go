package schema

import (
	"fmt"
	"sort"
	"strings"
)

// resolved type information for the emitter
type rtype struct {
	t      Type
	kind   string // "builtin","any","message","enum","struct","msg"
	goName string // Go type expression for references (alias.Name)
	prefix string // "alias." or ""
	key    string // registry key pkgid.Name
}

type emitter struct {
	set *Set
	pkg *Package
	// definition kind by "pkgid.Name"
	kinds map[string]DefKind
	// alias -> pkg id for the current file's imports (package-wide union)
	aliases map[string]string
	used    map[string]bool // aliases referenced
}

func newEmitter(set *Set, pkg *Package) *emitter {
	e := &emitter{set: set, pkg: pkg, kinds: map[string]DefKind{}, aliases: map[string]string{}, used: map[string]bool{}}
	for _, p := range set.Pkgs {
		for _, f := range p.Files {
			for _, d := range f.Defs {
				e.kinds[p.ID+"."+d.Name] = d.Kind
			}
		}
	}
	for _, f := range pkg.Files {
		for _, im := range f.Imports {
			name := im.Alias
			if name == "" {
				name = im.ID
			}
			e.aliases[name] = im.ID
		}
	}
	return e
}

func (e *emitter) resolve(t Type) rtype {
	r := rtype{t: t}
	if t.Pkg == "" {
		if _, ok := builtinKind[t.Name]; ok {
			switch t.Name {
			case "any":
				r.kind = "any"
			case "message":
				r.kind = "message"
			default:
				r.kind = "builtin"
			}
			return r
		}
		r.key = e.pkg.ID + "." + t.Name
		r.goName = t.Name
	} else {
		r.key = e.aliases[t.Pkg] + "." + t.Name
		r.goName = t.Pkg + "." + t.Name
		r.prefix = t.Pkg + "."
		e.used[t.Pkg] = true
	}
	switch e.kinds[r.key] {
	case DefEnum:
		r.kind = "enum"
	case DefStruct:
		r.kind = "struct"
	case DefMessage:
		r.kind = "msg"
	default:
		r.kind = "unknown"
	}
	return r
}

var genKindConst = map[string]string{"bool": "gen.KBool", "byte": "gen.KByte", "int16": "gen.KInt16", "int32": "gen.KInt32", "int64": "gen.KInt64", "uint16": "gen.KUint16",
	"uint32": "gen.KUint32", "uint64": "gen.KUint64", "float32": "gen.KFloat32", "float64": "gen.KFloat64", "bin64": "gen.KBin64", "bin128": "gen.KBin128", "bin256": "gen.KBin256",
	"bytes": "gen.KBytes", "string": "gen.KString"}

// toGo converts node expression v to the Go value of a non-list, non-message type.
func (e *emitter) toGo(r rtype, v string, structField bool) string {
	switch r.kind {
	case "builtin":
		switch r.t.Name {
		case "bool":
			return v + ".I != 0"
		case "byte":
			return "byte(" + v + ".I)"
		case "int16", "int32", "int64":
			return r.t.Name + "(" + v + ".I)"
		case "uint16", "uint32", "uint64":
			return r.t.Name + "(" + v + ".U)"
		case "float32":
			return "math.Float32frombits(uint32(" + v + ".U))"
		case "float64":
			return "math.Float64frombits(" + v + ".U)"
		case "bin64":
			return "ltest.B64(" + v + ".B)"
		case "bin128":
			return "ltest.B128(" + v + ".B)"
		case "bin256":
			return "ltest.B256(" + v + ".B)"
		case "bytes":
			return v + ".B"
		case "string":
			return "string(" + v + ".B)"
		}
	case "enum":
		return r.goName + "(int32(" + v + ".I))"
	case "struct":
		return r.prefix + "VerifNodeTo" + r.t.Name + "(" + v + ")"
	}
	return "/* unsupported */ nil"
}

// fromGo converts a Go value expression x of a non-list type into a node expression.
func (e *emitter) fromGo(r rtype, x string) string {
	switch r.kind {
	case "builtin":
		switch r.t.Name {
		case "bool":
			return "gen.Bool(" + x + ")"
		case "byte":
			return "gen.Byte(" + x + ")"
		case "int16":
			return "gen.Int16(" + x + ")"
		case "int32":
			return "gen.Int32(" + x + ")"
		case "int64":
			return "gen.Int64(" + x + ")"
		case "uint16":
			return "gen.Uint16(" + x + ")"
		case "uint32":
			return "gen.Uint32(" + x + ")"
		case "uint64":
			return "gen.Uint64(" + x + ")"
		case "float32":
			return "gen.Float32(" + x + ")"
		case "float64":
			return "gen.Float64(" + x + ")"
		case "bin64":
			return "ltest.Bin64Node(" + x + ")"
		case "bin128":
			return "ltest.Bin128Node(" + x + ")"
		case "bin256":
			return "ltest.Bin256Node(" + x + ")"
		case "bytes":
			return "gen.Bytes(append([]byte{}, " + x + "...))"
		case "string":
			return "gen.String(string(" + x + "))"
		}
	case "enum":
		return "gen.Int32(int32(" + x + "))"
	case "struct":
		return r.prefix + "VerifNode" + "From" + r.t.Name + "(" + x + ")"
	case "msg":
		return r.prefix + "VerifRead" + r.t.Name + "(" + x + ")"
	case "any":
		return "ltest.DecodeAny(" + x + ")"
	case "message":
		return "ltest.DecodeAny(" + x + ".Raw())"
	}
	return "nil"
}

func (e *emitter) ltestType(t Type) string {
	r := e.resolve(Type{Pkg: t.Pkg, Name: t.Name})
	var s string
	switch r.kind {
	case "builtin":
		s = "ltest.Type{Kind: ltest.KBuiltin, Builtin: " + genKindConst[t.Name]
	case "any":
		s = "ltest.Type{Kind: ltest.KAny"
	case "message":
		s = "ltest.Type{Kind: ltest.KAnyMessage"
	case "enum":
		s = fmt.Sprintf("ltest.Type{Kind: ltest.KEnum, Ref: %q", r.key)
	case "struct":
		s = fmt.Sprintf("ltest.Type{Kind: ltest.KStruct, Ref: %q", r.key)
	default:
		s = fmt.Sprintf("ltest.Type{Kind: ltest.KMessage, Ref: %q", r.key)
	}
	if t.List {
		s += ", List: true"
	}
	return s + "}"
}

// EmitPackage returns the helper file and the test file for one generated package.
func EmitPackage(set *Set, pkg *Package, checks int) (helper, test string) {
	e := newEmitter(set, pkg)
	var h, reg strings.Builder
	var msgs, structs, enums []*Def
	for _, f := range pkg.Files {
		for _, d := range f.Defs {
			switch d.Kind {
			case DefMessage:
				msgs = append(msgs, d)
			case DefStruct:
				structs = append(structs, d)
			case DefEnum:
				enums = append(enums, d)
			}
		}
	}
	// request/response messages the compiler generates for methods with inline field lists:
	// <Service><Method>Request / <Service><Method>Response, fields and tags exactly as written in the method
	for _, f := range pkg.Files {
		for _, d := range f.Defs {
			if d.Kind != DefService && d.Kind != DefSubservice {
				continue
			}
			for _, m := range d.Methods {
				if len(m.InputFields) > 0 {
					msgs = append(msgs, &Def{Kind: DefMessage, Name: d.Name + Camel(m.Name) + "Request", Fields: m.InputFields})
				}
				if len(m.OutputFields) > 0 {
					msgs = append(msgs, &Def{Kind: DefMessage, Name: d.Name + Camel(m.Name) + "Response", Fields: m.OutputFields})
				}
			}
		}
	}
	// ---- registry ----
	for _, d := range enums {
		fmt.Fprintf(&reg, "\tltest.Register(&ltest.Desc{Key: %q, Kind: ltest.KEnum, Values: []int32{", pkg.ID+"."+d.Name)
		for _, v := range d.Values {
			fmt.Fprintf(&reg, "%s, ", v.Value)
		}
		reg.WriteString("}})\n")
	}
	for _, d := range structs {
		fmt.Fprintf(&reg, "\tltest.Register(&ltest.Desc{Key: %q, Kind: ltest.KStruct, Fields: []ltest.Field{\n", pkg.ID+"."+d.Name)
		for _, f := range d.Fields {
			fmt.Fprintf(&reg, "\t\t{Name: %q, Type: %s},\n", f.Name, e.ltestType(f.Type))
		}
		reg.WriteString("\t}})\n")
	}
	for _, d := range msgs {
		fmt.Fprintf(&reg, "\tltest.Register(&ltest.Desc{Key: %q, Kind: ltest.KMessage, Fields: []ltest.Field{\n", pkg.ID+"."+d.Name)
		for _, f := range d.Fields {
			fmt.Fprintf(&reg, "\t\t{Name: %q, Tag: %s, Type: %s},\n", f.Name, f.Tag, e.ltestType(f.Type))
		}
		reg.WriteString("\t}})\n")
	}
	// ---- structs ----
	for _, d := range structs {
		fmt.Fprintf(&h, "func VerifNodeTo%s(n *gen.Node) %s {\n\tvar s %s\n", d.Name, d.Name, d.Name)
		for i, f := range d.Fields {
			r := e.resolve(f.Type)
			fmt.Fprintf(&h, "\ts.%s = %s\n", Camel(f.Name), e.toGo(r, fmt.Sprintf("n.Elems[%d]", i), true))
		}
		fmt.Fprintf(&h, "\treturn s\n}\n\n")
		fmt.Fprintf(&h, "func VerifNodeFrom%s(s %s) *gen.Node {\n\tn := &gen.Node{Kind: gen.KStruct}\n", d.Name, d.Name)
		for _, f := range d.Fields {
			r := e.resolve(f.Type)
			fmt.Fprintf(&h, "\tn.Elems = append(n.Elems, %s)\n", e.fromGo(r, "s."+Camel(f.Name)))
		}
		fmt.Fprintf(&h, "\treturn n\n}\n\n")
	}
	// ---- messages ----
	for _, d := range msgs {
		fmt.Fprintf(&h, "func VerifWrite%s(w %sWriter, n *gen.Node) error {\n\tfor _, f := range n.Fields {\n\t\tv := f.V\n\t\t_ = v\n\t\tswitch f.Tag {\n", d.Name, d.Name)
		for _, f := range d.Fields {
			m := Camel(f.Name)
			base := Type{Pkg: f.Type.Pkg, Name: f.Type.Name}
			r := e.resolve(base)
			fmt.Fprintf(&h, "\t\tcase %s:\n", f.Tag)
			switch {
			case f.Type.List && r.kind == "msg":
				fmt.Fprintf(&h, "\t\t\tl := w.%s()\n\t\t\tfor _, e := range v.Elems {\n\t\t\t\tsub := l.Add()\n\t\t\t\tif err := %sVerifWrite%s(sub, e); err != nil {\n\t\t\t\t\treturn err\n\t\t\t\t}\n\t\t\t\tif err := sub.End(); err != nil {\n\t\t\t\t\treturn err\n\t\t\t\t}\n\t\t\t}\n\t\t\tif err := l.End(); err != nil {\n\t\t\t\treturn err\n\t\t\t}\n", m, r.prefix, base.Name)
			case f.Type.List:
				fmt.Fprintf(&h, "\t\t\tl := w.%s()\n\t\t\tfor _, e := range v.Elems {\n\t\t\t\tif err := l.Add(%s); err != nil {\n\t\t\t\t\treturn err\n\t\t\t\t}\n\t\t\t}\n\t\t\tif err := l.End(); err != nil {\n\t\t\t\treturn err\n\t\t\t}\n", m, e.toGo(r, "e", false))
			case r.kind == "msg":
				fmt.Fprintf(&h, "\t\t\tif len(v.Fields)%%2 == 1 {\n\t\t\t\tif err := w.Copy%s(%sOpen%s(ltest.EncodeNode(v))); err != nil {\n\t\t\t\t\treturn err\n\t\t\t\t}\n\t\t\t} else {\n\t\t\t\tsub := w.%s()\n\t\t\t\tif err := %sVerifWrite%s(sub, v); err != nil {\n\t\t\t\t\treturn err\n\t\t\t\t}\n\t\t\t\tif err := sub.End(); err != nil {\n\t\t\t\t\treturn err\n\t\t\t\t}\n\t\t\t}\n", m, r.prefix, base.Name, m, r.prefix, base.Name)
			case r.kind == "any":
				fmt.Fprintf(&h, "\t\t\tif err := w.%s().Any(ltest.EncodeNode(v)); err != nil {\n\t\t\t\treturn err\n\t\t\t}\n", m)
			case r.kind == "message":
				fmt.Fprintf(&h, "\t\t\tif err := w.Copy%s(spec.OpenMessage(ltest.EncodeNode(v))); err != nil {\n\t\t\t\treturn err\n\t\t\t}\n", m)
			default:
				fmt.Fprintf(&h, "\t\t\tw.%s(%s)\n", m, e.toGo(r, "v", false))
			}
		}
		fmt.Fprintf(&h, "\t\tdefault:\n\t\t\treturn fmt.Errorf(\"%s: no field with tag %%d\", f.Tag)\n\t\t}\n\t}\n\treturn nil\n}\n\n", d.Name)
		fmt.Fprintf(&h, "func VerifRead%s(m %s) *gen.Node {\n\tn := &gen.Node{Kind: gen.KMessage}\n", d.Name, d.Name)
		for _, f := range d.Fields {
			m := Camel(f.Name)
			base := Type{Pkg: f.Type.Pkg, Name: f.Type.Name}
			r := e.resolve(base)
			fmt.Fprintf(&h, "\tif m.Has%s() {\n", m)
			if f.Type.List {
				fmt.Fprintf(&h, "\t\tl := m.%s()\n\t\tln := &gen.Node{Kind: gen.KList}\n\t\tfor i := 0; i < l.Len(); i++ {\n\t\t\tln.Elems = append(ln.Elems, %s)\n\t\t}\n\t\tn.Fields = append(n.Fields, gen.F(%s, ln))\n", m, e.fromGo(r, "l.Get(i)"), f.Tag)
			} else {
				fmt.Fprintf(&h, "\t\tn.Fields = append(n.Fields, gen.F(%s, %s))\n", f.Tag, e.fromGo(r, "m."+m+"()"))
			}
			fmt.Fprintf(&h, "\t}\n")
		}
		fmt.Fprintf(&h, "\treturn n\n}\n\n")
		// absent fields read as the zero value
		fmt.Fprintf(&h, "func VerifAbsentZero%s(m %s) string {\n", d.Name, d.Name)
		for _, f := range d.Fields {
			m := Camel(f.Name)
			base := Type{Pkg: f.Type.Pkg, Name: f.Type.Name}
			r := e.resolve(base)
			var nz string
			switch {
			case f.Type.List:
				nz = "m." + m + "().Len() != 0"
			case r.kind == "builtin":
				switch base.Name {
				case "bool":
					nz = "m." + m + "()"
				case "bin64", "bin128", "bin256":
					nz = "!m." + m + "().IsZero()"
				case "bytes", "string":
					nz = "len(m." + m + "()) != 0"
				default:
					nz = "m." + m + "() != 0"
				}
			case r.kind == "enum":
				nz = "m." + m + "() != 0"
			case r.kind == "struct":
				nz = "fmt.Sprint(m." + m + "()) != fmt.Sprint(" + r.goName + "{})"
			case r.kind == "msg":
				nz = "!m." + m + "().IsEmpty()"
			case r.kind == "any":
				nz = "len(m." + m + "()) != 0"
			default:
				nz = "!m." + m + "().Empty()"
			}
			fmt.Fprintf(&h, "\tif !m.Has%s() && (%s) {\n\t\treturn %q\n\t}\n", m, nz, f.Name)
		}
		fmt.Fprintf(&h, "\treturn \"\"\n}\n\n")
	}
	// ---- header ----
	var hdr strings.Builder
	fmt.Fprintf(&hdr, "// Code emitted by the verification harness. DO NOT EDIT.\n\npackage %s\n\nimport (\n\t\"fmt\"\n\t\"math\"\n\n\t\"github.com/basecomplextech/spec\"\n\t\"verifharness/gen\"\n\t\"verifharness/ltest\"\n", pkg.ID)
	var al []string
	for a := range e.used {
		al = append(al, a)
	}
	sort.Strings(al)
	for _, a := range al {
		var gopath string
		for _, p := range set.Pkgs {
			if p.ID == e.aliases[a] {
				gopath = p.GoPath
			}
		}
		fmt.Fprintf(&hdr, "\t%s %q\n", a, gopath)
	}
	hdr.WriteString(")\n\nvar (\n\t_ = fmt.Sprint\n\t_ = math.Pi\n\t_ spec.Type\n\t_ gen.Kind\n)\n\nfunc init() {\n")
	hdr.WriteString(reg.String())
	hdr.WriteString("}\n\n")
	helper = hdr.String() + h.String()

	// ---- test file ----
	var t strings.Builder
	fmt.Fprintf(&t, "// Code emitted by the verification harness. DO NOT EDIT.\n\npackage %s\n\nimport (\n\t\"bytes\"\n\t\"fmt\"\n\t\"testing\"\n\n\t\"github.com/basecomplextech/baselibrary/buffer\"\n\t\"pgregory.net/rapid\"\n\t\"verifharness/gen\"\n\t\"verifharness/ltest\"\n)\n\nvar _ = buffer.New\nvar _ = bytes.Equal\n\n", pkg.ID)
	fmt.Fprintf(&t, "func TestVerifC05(t *testing.T) {\n\tevals := 0\n\trapid.Check(t, func(rt *rapid.T) {\n\t\ts := gen.RapidSrc{T: rt}\n\t\t_ = s\n")
	for _, d := range msgs {
		key := pkg.ID + "." + d.Name
		fmt.Fprintf(&t, "\t\t{\n\t\t\tn := ltest.GenMessage(s, ltest.Registry[%q], 2)\n\t\t\tw := New%sWriter()\n\t\t\tif err := VerifWrite%s(w, n); err != nil {\n\t\t\t\trt.Fatalf(\"VERIF-C05-VIOLATION key=generated-writer-error msg=%s: %%v value=%%s\", err, n.Render(400))\n\t\t\t}\n\t\t\tm, err := w.Build()\n\t\t\tif err != nil {\n\t\t\t\trt.Fatalf(\"VERIF-C05-VIOLATION key=generated-writer-error msg=%s Build: %%v value=%%s\", err, n.Render(400))\n\t\t\t}\n\t\t\tb := m.Unwrap().Raw()\n\t\t\tif msg := ltest.CheckMessage(%q, n, b, VerifRead%s(m), VerifRead%s(Open%s(ltest.EncodeNode(n)))); msg != \"\" {\n\t\t\t\trt.Fatalf(\"VERIF-C05-VIOLATION %%s\", msg)\n\t\t\t}\n\t\t\tevals++\n\t\t}\n", key, d.Name, d.Name, d.Name, d.Name, key, d.Name, d.Name, d.Name)
	}
	for _, d := range structs {
		key := pkg.ID + "." + d.Name
		fmt.Fprintf(&t, "\t\t{\n\t\t\tn := ltest.GenStruct(s, ltest.Registry[%q], 2)\n\t\t\tv := VerifNodeTo%s(n)\n\t\t\tbuf := buffer.New()\n\t\t\tsz, err := Encode%sTo(buf, v)\n\t\t\tif err != nil {\n\t\t\t\trt.Fatalf(\"VERIF-C05-VIOLATION key=struct-encode-error msg=%s: %%v\", err)\n\t\t\t}\n\t\t\tgot, dsz, derr := Decode%s(buf.Bytes())\n\t\t\tvar back *gen.Node\n\t\t\tif derr == nil {\n\t\t\t\tback = VerifNodeFrom%s(got)\n\t\t\t}\n\t\t\tif msg := ltest.CheckStruct(%q, n, buf.Bytes(), sz, dsz, derr, back, VerifNodeFrom%s(Open%s(ltest.EncodeNode(n)))); msg != \"\" {\n\t\t\t\trt.Fatalf(\"VERIF-C05-VIOLATION %%s\", msg)\n\t\t\t}\n\t\t\tevals++\n\t\t}\n", key, d.Name, d.Name, d.Name, d.Name, d.Name, key, d.Name, d.Name)
	}
	for _, d := range enums {
		fmt.Fprintf(&t, "\t\t{\n\t\t\tv := %s(int32(rapid.Int32().Draw(rt, \"enum\")))\n\t\t\tbuf := buffer.New()\n\t\t\tsz, err := Encode%sTo(buf, v)\n\t\t\tgot, dsz, derr := Decode%s(buf.Bytes())\n\t\t\tif err != nil || derr != nil || got != v || sz != dsz || sz != buf.Len() || Open%s(buf.Bytes()) != v || !bytes.Equal(buf.Bytes(), ltest.EncodeNode(gen.Int32(int32(v)))) {\n\t\t\t\trt.Fatalf(\"VERIF-C05-VIOLATION key=enum-roundtrip msg=%s value %%d: got %%d sizes %%d/%%d errs %%v/%%v bytes %%x\", int32(v), int32(got), sz, dsz, err, derr, buf.Bytes())\n\t\t\t}\n\t\t\tevals++\n\t\t}\n", d.Name, d.Name, d.Name, d.Name, d.Name)
		for _, v := range d.Values {
			fmt.Fprintf(&t, "\t\tif %s_%s != %s(%s) || %s_%s.String() == \"\" {\n\t\t\trt.Fatalf(\"VERIF-C05-VIOLATION key=enum-constant msg=%s.%s\")\n\t\t}\n", d.Name, Camel(v.Name), d.Name, v.Value, d.Name, Camel(v.Name), d.Name, v.Name)
		}
	}
	fmt.Fprintf(&t, "\t})\n\tfmt.Printf(\"VERIF-C05-STATS pkg=%s evaluations=%%d messages=%d structs=%d enums=%d\\n\", evals)\n}\n", pkg.ID, len(msgs), len(structs), len(enums))
	// C02: the generated struct decoders and message readers on hostile input
	fmt.Fprintf(&t, "\nfunc TestVerifC02(t *testing.T) {\n\ttried := 0\n\trapid.Check(t, func(rt *rapid.T) {\n\t\ts := gen.RapidSrc{T: rt}\n\t\t_ = s\n")
	for _, d := range structs {
		key := pkg.ID + "." + d.Name
		fmt.Fprintf(&t, "\t\t{\n\t\t\tn := ltest.GenStruct(s, ltest.Registry[%q], 2)\n\t\t\tbuf := buffer.New()\n\t\t\tif _, err := Encode%sTo(buf, VerifNodeTo%s(n)); err != nil {\n\t\t\t\trt.Fatalf(\"VERIF-C02-VIOLATION key=struct-encode-error msg=%s: %%v\", err)\n\t\t\t}\n\t\t\tk, msg := ltest.Hostile(\"Decode%s\", buf.Bytes(), func(b []byte) (int, bool, error) { _, n, err := Decode%s(b); return n, true, err })\n\t\t\ttried += k\n\t\t\tif msg != \"\" {\n\t\t\t\trt.Fatalf(\"VERIF-C02-VIOLATION %%s\", msg)\n\t\t\t}\n\t\t\tk, msg = ltest.Hostile(\"Open%s\", buf.Bytes(), func(b []byte) (int, bool, error) { _ = Open%s(b); return 0, false, nil })\n\t\t\ttried += k\n\t\t\tif msg != \"\" {\n\t\t\t\trt.Fatalf(\"VERIF-C02-VIOLATION %%s\", msg)\n\t\t\t}\n\t\t}\n", key, d.Name, d.Name, d.Name, d.Name, d.Name, d.Name, d.Name)
	}
	for _, d := range msgs {
		key := pkg.ID + "." + d.Name
		fmt.Fprintf(&t, "\t\t{\n\t\t\tn := ltest.GenMessage(s, ltest.Registry[%q], 2)\n\t\t\tbase := ltest.EncodeNode(n)\n\t\t\tk, msg := ltest.Hostile(\"%s accessors\", base, func(b []byte) (int, bool, error) { _ = VerifRead%s(Open%s(b)); return 0, false, nil })\n\t\t\ttried += k\n\t\t\tif msg != \"\" {\n\t\t\t\trt.Fatalf(\"VERIF-C02-VIOLATION %%s\", msg)\n\t\t\t}\n\t\t\tk, msg = ltest.Hostile(\"Parse%s\", base, func(b []byte) (int, bool, error) { m, n, err := Parse%s(b); if err == nil { _ = VerifRead%s(m) }; return n, true, err })\n\t\t\ttried += k\n\t\t\tif msg != \"\" {\n\t\t\t\trt.Fatalf(\"VERIF-C02-VIOLATION %%s\", msg)\n\t\t\t}\n\t\t}\n", key, d.Name, d.Name, d.Name, d.Name, d.Name, d.Name)
	}
	fmt.Fprintf(&t, "\t})\n\tfmt.Printf(\"VERIF-C02-STATS pkg=%s tried=%%d structs=%d messages=%d\\n\", tried)\n}\n", pkg.ID, len(structs), len(msgs))
	test = t.String()
	_ = checks
	return helper, test
}
