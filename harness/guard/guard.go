// Package guard places inputs next to PROT_NONE pages so that an out-of-range unsafe
// read faults instead of silently reading neighbouring memory.
package guard

import (
	"fmt"
	"syscall"
)

const page = 4096

// Region is a reusable mapping: [guard page][payload area][guard page].
type Region struct {
	mem  []byte
	size int // payload area size (multiple of page)
}

// New maps a region able to hold inputs of up to max bytes.
func New(max int) (*Region, error) {
	size := (max + page - 1) / page * page
	if size == 0 {
		size = page
	}
	mem, err := syscall.Mmap(-1, 0, size+2*page, syscall.PROT_READ|syscall.PROT_WRITE, syscall.MAP_ANON|syscall.MAP_PRIVATE)
	if err != nil {
		return nil, fmt.Errorf("guard: mmap: %w", err)
	}
	if err := syscall.Mprotect(mem[:page], syscall.PROT_NONE); err != nil {
		return nil, fmt.Errorf("guard: mprotect: %w", err)
	}
	if err := syscall.Mprotect(mem[page+size:], syscall.PROT_NONE); err != nil {
		return nil, fmt.Errorf("guard: mprotect: %w", err)
	}
	return &Region{mem: mem, size: size}, nil
}

// Max returns the largest input the region holds.
func (r *Region) Max() int { return r.size }

// AtEnd copies b so that it ends exactly at the trailing guard page.
func (r *Region) AtEnd(b []byte) []byte {
	if len(b) > r.size {
		panic("guard: input too large")
	}
	start := page + r.size - len(b)
	dst := r.mem[start : start+len(b) : start+len(b)]
	copy(dst, b)
	return dst
}

// AtStart copies b so that it starts right after the leading guard page.
func (r *Region) AtStart(b []byte) []byte {
	if len(b) > r.size {
		panic("guard: input too large")
	}
	dst := r.mem[page : page+len(b) : page+len(b)]
	copy(dst, b)
	return dst
}

func (r *Region) Close() { syscall.Munmap(r.mem) }
