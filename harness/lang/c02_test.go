package lang

// C02, generated-code layer: "the struct decoders emitted by the generator" and the generated
// message readers on hostile input.

import (
	"regexp"
	"strconv"
	"strings"
	"testing"
	"time"

	"pgregory.net/rapid"

	"verifharness/ev"
	"verifharness/gen"
	"verifharness/schema"
)

const c02 = "C02"

var c02statsRe = regexp.MustCompile(`VERIF-C02-STATS pkg=(\S+) tried=(\d+) structs=(\d+) messages=(\d+)`)
var c02violRe = regexp.MustCompile(`VERIF-C02-VIOLATION (key=(\S+) msg=[^\n]*)`)

func TestC02_GeneratedDecoders(t *testing.T) {
	ev.Rule(c02, "generated-code layer: schema sets from the semantic generator are compiled with the real `spec generate`; an emitted driver encodes random values of every declared struct and message, sets every byte of the encoding to {0,1,2,0x7f,0x80,0xfc..0xff,+-1,^0x80, type codes}, truncates it at every length from both ends, places each variant at the end of / right after an inaccessible page and runs Decode<Struct>, Open<Struct>, Parse<Message> and every generated accessor of Open<Message>: no panic, no fault, reported size within the input; non-trivial = set declares >=1 struct")
	den := int64(30) // quick: 2 schema sets per shard
	if ev.Thorough() {
		den = 100 // thorough: 6 per shard x 16 shards (each set costs a compiler run, a go build and a link)
	}
	ev.CheckScaled(t, c02, 1, den, func(rt *rapid.T) {
		s := gen.RapidSrc{T: rt}
		set, _ := schema.GenSet(s, "vmod")
		ws, err := NewWorkspace("vmod")
		if err != nil {
			ev.InfraSkip(rt, c02, "%v", err)
		}
		defer ws.Remove()
		kase := c05case{Sources: setSources(set)}
		key, msg, out := buildAndEmit(ws, set, schema.Style{S: s})
		if key == "infra" {
			ev.InfraSkip(rt, c02, "%s", msg)
		}
		if key != "" {
			// a valid schema that does not generate is C05/C14's finding, not C02's
			ev.Label(c02, "generated:skipped-not-generated", 1)
			_ = out
			return
		}
		var ids []string
		for _, p := range set.Pkgs {
			ids = append(ids, p.ID)
		}
		seed := rapid.IntRange(1, 1<<30).Draw(rt, "driverseed")
		o, ok, timedOut := ws.GoTest(10*time.Minute, []string{"-v", "-run", "TestVerifC02", "-rapid.checks=6", "-rapid.seed=" + strconv.Itoa(seed), "-rapid.nofailfile"}, ids...)
		if timedOut {
			ev.InfraSkip(rt, c02, "emitted drivers did not finish in 10 min")
		}
		if m := c02violRe.FindStringSubmatch(o); m != nil {
			kase.Output = clipOut(m[1])
			ev.Violation(rt, c02, "generated:"+m[2], kase, "%s", m[1])
		}
		if !ok {
			if strings.Contains(o, "[build failed]") {
				ev.Label(c02, "generated:skipped-does-not-compile", 1)
				return
			}
			kase.Output = clipOut(o)
			ev.Violation(rt, c02, "generated:driver-failed", kase, "emitted hostile-input driver failed without a violation line (process crash?)")
		}
		var tried, structs int64
		for _, m := range c02statsRe.FindAllStringSubmatch(o, -1) {
			v, _ := strconv.ParseInt(m[2], 10, 64)
			tried += v
			n, _ := strconv.ParseInt(m[3], 10, 64)
			structs += n
		}
		ev.Label(c02, "generated:hostile-inputs", tried)
		ev.Case(c02, ev.Hash("gen", setSources(set)), structs > 0, "generated-decoders")
	})
}
