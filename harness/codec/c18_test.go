package codec

// C18 (codec part) — pooled writers, states and buffers never leak state between uses or goroutines.

import (
	"bytes"
	"fmt"
	"sync"
	"testing"

	"github.com/basecomplextech/baselibrary/buffer"
	spec "github.com/basecomplextech/spec"
	"pgregory.net/rapid"

	"verifharness/ev"
	"verifharness/gen"
	"verifharness/prog"
	"verifharness/refcodec"
)

const c18 = "C18"

type c18job struct {
	tree  *gen.Node
	style uint64
	kind  int // 0 legal (drawn root constructor), 1 failing pooled use then legal, 2 abandoned pooled writer then legal, 3 owned writer failing + Free then legal, 4 failed pooled program whose handles are used again while a second pooled program is being written
	want  []byte
}

type c18case struct {
	Goroutines int      `json:"goroutines"`
	Jobs       int      `json:"jobs"`
	Failed     string   `json:"failed_job,omitempty"`
	Kinds      []string `json:"job_kinds,omitempty"`
}

func runC18Job(j *c18job) (got []byte, err error) {
	defer func() {
		if r := recover(); r != nil {
			err = fmt.Errorf("panic: %v", r)
		}
	}()
	switch j.kind {
	case 1:
		m := spec.NewMessageWriterBuffer(buffer.New())
		runFailingProgram(m.Unwrap(), int(j.style))
	case 2:
		m := spec.NewMessageWriter()
		m.Field(1).Int32(1)
		sub := m.Field(2).List()
		sub.Int32(2)
		// abandoned: never ended
	case 3:
		w := spec.NewWriter()
		runFailingProgram(w, int(j.style))
		w.Free()
	case 4:
		if e := staleHandlesInterleaved(int(j.style)); e != nil {
			return nil, e
		}
	}
	x := prog.NewExec(&gen.PRNG{S: j.style})
	b, _, e := x.Build(j.tree)
	if e != nil {
		return nil, e
	}
	// read back through the library while other goroutines are writing
	r := &prog.Reader{NoClone: true, AbsentSeed: j.style}
	if e := r.CheckRoot(j.tree, b); e != nil {
		return b, fmt.Errorf("read-back: %v", e)
	}
	return b, nil
}

// staleHandlesInterleaved: a program on a pooled writer fails midway and keeps its handles (errors
// are sticky, a failed program normally still calls End/Build); a second program then acquires a
// pooled writer and is half written when the first program's handles are used again; the second
// program is finished afterwards. The failed handles must keep reporting the error and the second
// program's bytes must be exactly what it wrote.
func staleHandlesInterleaved(style int) error {
	m1 := spec.NewMessageWriterBuffer(buffer.New())
	sub1 := m1.Field(9).List()
	sub1.Bytes([]byte{1, 2, 3})
	var ferr error
	// a field of the parent while the nested list is open (End/Build of the parent would simply end the
	// innermost open container: that is not an error in this writer)
	switch style % 3 {
	case 0:
		ferr = m1.Field(10).Bool(true)
	case 1:
		sub1.Int32(5)
		ferr = m1.Field(2).String("x")
	default:
		ferr = m1.Field(300).Bytes([]byte{9})
	}
	if ferr == nil {
		return fmt.Errorf("misuse of a pooled writer (parent touched while a nested list is open) returned no error")
	}
	// second program, pooled writer, half written
	m2 := spec.NewMessageWriterBuffer(buffer.New())
	m2.Field(1).Int32(7)
	l2 := m2.Field(2).List()
	l2.Int32(1)
	// the failed program goes on
	var late []error
	switch (style / 3) % 4 {
	case 0:
		late = append(late, sub1.End(), m1.End())
	case 1:
		late = append(late, m1.Field(3).Int64(9), sub1.Int32(4))
		_, e := m1.Build()
		late = append(late, e)
	case 2:
		late = append(late, sub1.String("zz"), sub1.End(), m1.Field(1).String("x"), m1.End())
	default:
		_, e := m1.Build()
		late = append(late, e, m1.End())
	}
	for i, e := range late {
		if e == nil {
			return fmt.Errorf("late call %d on a handle of a failed pooled program returned nil (the error must be sticky)", i)
		}
	}
	// the second program is finished
	l2.Int32(2)
	if err := l2.End(); err != nil {
		return fmt.Errorf("second pooled program disturbed by the failed program's handles: list End: %v", err)
	}
	m2.Field(3).String("ok")
	b, err := m2.Build()
	if err != nil {
		return fmt.Errorf("second pooled program disturbed by the failed program's handles: Build: %v", err)
	}
	want := refcodec.Encode(nil, gen.Message(gen.F(1, gen.Int32(7)), gen.F(2, gen.List(gen.Int32(1), gen.Int32(2))), gen.F(3, gen.String("ok"))))
	if !bytes.Equal(b, want) {
		return fmt.Errorf("second pooled program's bytes %x differ from what it wrote (%x): the failed program's handles wrote into it", b, want)
	}
	return nil
}

func TestC18_CodecConcurrent(t *testing.T) {
	ev.Rule(c18, "codec part: G in 2..32 goroutines each run a drawn list of jobs (legal programs through all root constructors incl. pooled/auto-released writers; a pooled writer that fails midway; an abandoned auto-released writer; an owned writer failing then Free) and compare the bytes with the sequential result (deterministic by C08: the reference encoding of the effective tree) and read them back; thorough tier runs the same under the race detector; non-trivial = >=4 goroutines and >=1 failing/abandoned job; distinct by job-set hash")
	ev.CheckScaled(t, c18, 1, 1, func(rt *rapid.T) {
		s := gen.RapidSrc{T: rt}
		g := rapid.IntRange(2, 32).Draw(rt, "goroutines")
		perG := rapid.IntRange(1, 12).Draw(rt, "jobsper")
		nTrees := rapid.IntRange(1, 8).Draw(rt, "ntrees")
		var trees []*gen.Node
		for i := 0; i < nTrees; i++ {
			n, _ := gen.Tree(s, gen.Limits{MaxDepth: 3, MaxNodes: 20})
			trees = append(trees, n)
		}
		jobs := make([][]*c18job, g)
		failing := 0
		var kinds []string
		var hashParts []any
		for i := 0; i < g; i++ {
			for k := 0; k < perG; k++ {
				j := &c18job{tree: trees[rapid.IntRange(0, nTrees-1).Draw(rt, "tree")], style: rapid.Uint64().Draw(rt, "style"), kind: rapid.IntRange(0, 6).Draw(rt, "kind")}
				if j.kind > 4 {
					j.kind = 0
				}
				if j.kind != 0 {
					failing++
				}
				// sequential expectation: effective tree under these style decisions
				x := prog.NewExec(&gen.PRNG{S: j.style})
				_, eff, err := x.Build(j.tree)
				if err != nil {
					ev.Violation(rt, c18, "sequential-run-failed", nil, "job failed when run alone: %v", err)
				}
				j.want = refcodec.Encode(nil, eff)
				jobs[i] = append(jobs[i], j)
				hashParts = append(hashParts, j.tree.Fingerprint(), j.style, j.kind)
				if len(kinds) < 40 {
					kinds = append(kinds, fmt.Sprint(j.kind))
				}
			}
		}
		kase := c18case{Goroutines: g, Jobs: g * perG, Kinds: kinds}
		var wg sync.WaitGroup
		var mu sync.Mutex
		var firstErr string
		start := make(chan struct{})
		for i := 0; i < g; i++ {
			wg.Add(1)
			go func(list []*c18job) {
				defer wg.Done()
				<-start
				for _, j := range list {
					got, err := runC18Job(j)
					if err == nil && !bytes.Equal(got, j.want) {
						err = fmt.Errorf("bytes differ from the sequential result at offset %d (got %d bytes, want %d)", firstDiff(got, j.want), len(got), len(j.want))
					}
					if err != nil {
						mu.Lock()
						if firstErr == "" {
							firstErr = fmt.Sprintf("job kind=%d tree=%s: %v", j.kind, j.tree.Render(160), err)
						}
						mu.Unlock()
					}
				}
			}(jobs[i])
		}
		close(start)
		wg.Wait()
		if firstErr != "" {
			kase.Failed = firstErr
			ev.Violation(rt, c18, "concurrent-differs-from-sequential", kase, "%s", firstErr)
		}
		ev.Case(c18, ev.Hash(hashParts...), g >= 4 && failing > 0, fmt.Sprintf("goroutines>=4=%v", g >= 4), fmt.Sprintf("failing-jobs>0=%v", failing > 0))
		if ev.WantSample(c18) {
			ev.Sample(c18, kase)
		}
	})
}
