#!/bin/bash
# usage: tools/demo_both.sh <ID> "<demo command run in demo dir>"
# Runs the agent's demonstration with the patch (agent worktree as left) and without it.
id=$1; shift
export GOFLAGS=-mod=mod GOPROXY=off
wt=/tmp/seed/$id
echo "== WITH patch"; (cd /tmp/seed/$id.${SEED_SUFFIX:-out}/demo && eval "$@" 2>&1 | tail -12); 
git -C $wt apply -R /tmp/seed/$id.${SEED_SUFFIX:-out}/patch.diff || { echo "cannot reverse patch"; exit 3; }
echo "== WITHOUT patch"; (cd /tmp/seed/$id.${SEED_SUFFIX:-out}/demo && eval "$@" 2>&1 | tail -6)
git -C $wt apply /tmp/seed/$id.${SEED_SUFFIX:-out}/patch.diff
