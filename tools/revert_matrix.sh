#!/bin/bash
# For every "fixed:" line of KNOWN_FINDINGS.txt: revert that commit in a scratch worktree and run the property's quick check.
# usage: tools/revert_matrix.sh [out-file]
out=${1:-/tmp/verif-mut/revert_matrix.txt}
: > $out
grep "^fixed:" /verif/KNOWN_FINDINGS.txt | while read -r _ prop commit rest; do
  prop=${prop#property=}
  p=/tmp/verif-mut/patches/revert-$commit.diff
  git -C /repo diff $commit $commit~1 > $p
  if ! git -C /repo apply --check $p 2>/dev/null; then
    # try 3-way style: reverse-apply with reduced context
    if git -C /repo apply --check -C1 $p 2>/dev/null; then :; else echo "$prop $commit CONFLICT (revert does not apply cleanly) :: $rest" | cut -c1-200 >> $out; continue; fi
  fi
  res=$(MUT_TIMEOUT=1500 /verif/tools/mutant.sh rev-$commit $p $prop 2>&1 | tail -1)
  key=$(grep -m1 -o "violation \[[^]]*\] [A-Za-z0-9_]*" /tmp/verif-mut/rev-$commit.out)
  echo "$prop $commit ${res##*: } $key :: $rest" | cut -c1-220 >> $out
done
echo done >> $out
