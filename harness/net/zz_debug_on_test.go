//go:build verifdebug

package net

import "github.com/basecomplextech/spec/mpx"

func libDebugDump() string { return mpx.DebugLogDump() }
func libDebugReset()       { mpx.DebugLogReset() }
