package net

// C19 — client connection state is consistent, bounded and recovers.

import (
	"fmt"
	"net"
	"sync"
	"sync/atomic"
	"syscall"
	"testing"
	"time"

	"github.com/basecomplextech/baselibrary/async"
	"github.com/basecomplextech/baselibrary/status"
	"github.com/basecomplextech/spec/mpx"
	"pgregory.net/rapid"

	"verifharness/ev"
	"verifharness/netfx"
)

const c19 = "C19"

func TestC19_BackoffFunction(t *testing.T) {
	if sh, _ := ev.Shard(); sh != 0 {
		t.Skip("deterministic; shard 0 only")
	}
	ev.Rule(c19, "back-off function, exhaustive: for every retry attempt 2..100000 and 2^31-1, 2^62, 2^63-1: 25 ms <= t(a) <= 1 s and t(a+1) >= t(a)")
	prev := time.Duration(0)
	check := func(a int) {
		d := mpx.VerifReconnectTimeout(a)
		if d < 25*time.Millisecond || d > time.Second {
			ev.Violation(t, c19, "backoff-out-of-range", map[string]any{"attempt": a, "timeout": d.String()}, "reconnect back-off for attempt %d is %v, outside [25ms, 1s]", a, d)
		}
		if d < prev {
			ev.Violation(t, c19, "backoff-decreases", map[string]any{"attempt": a, "timeout": d.String(), "previous": prev.String()}, "reconnect back-off decreases within a run of failures: attempt %d gives %v after %v", a, d, prev)
		}
		prev = d
	}
	for a := 2; a <= 100000; a++ {
		check(a)
	}
	for _, a := range []int{1<<31 - 1, 1 << 31, 1 << 40, 1 << 62, 1<<63 - 1} {
		check(a)
	}
	ev.CaseEnum(c19, 100004, 100004, "backoff-attempts")
	ev.Exhaustive(c19, "back-off function for attempts 2..100000 and extreme attempt numbers")
}

func TestC19_BackoffObserved(t *testing.T) {
	if sh, _ := ev.Shard(); sh > 1 {
		t.Skip("two shards are enough")
	}
	ev.Rule(c19, "back-off observed: an auto-connect client against an address that refuses connections for ~2.5 s (second shard: with three pairs of failing user calls Conn/Channel during the outage); dial timestamps from net.Dialer.Control: every gap >= 25 ms (sound lower bound), gaps non-decreasing within a 25% tolerance after subtracting twice the timer lateness measured by a concurrent 5 ms sleep probe (an observed gap is the nominal back-off plus scheduling lateness), none above 1 s + 1.5 s slack + that lateness")
	srv, err := netfx.StartServer(echoHandler(), netfx.NewLogger(), mpx.Default())
	if err != nil {
		t.Fatalf("infrastructure: %v", err)
	}
	defer srv.Stop()
	px, err := netfx.NewProxy(srv.Addr)
	if err != nil {
		t.Fatalf("infrastructure: %v", err)
	}
	defer px.Close()
	px.StopListening() // dials are refused by the kernel: genuine dial failures
	var mu sync.Mutex
	var dials []time.Time
	dialer := &net.Dialer{Timeout: 2 * time.Second, Control: func(network, address string, c syscall.RawConn) error {
		mu.Lock()
		dials = append(dials, time.Now())
		mu.Unlock()
		return nil
	}}
	cl := mpx.NewClientDialer(px.Addr(), mpx.ClientMode_AutoConnect, dialer, netfx.NewLogger(), mpx.Default())
	defer cl.Close()
	userCalls := 0
	if sh, _ := ev.Shard(); sh == 1 {
		// second shard: user calls during the outage (they fail with the dial error); the run of failures
		// is the same run, so the spacing of the background dials must not restart
		go func() {
			for _, at := range []time.Duration{700, 500, 600} {
				time.Sleep(at * time.Millisecond)
				ctx := async.TimeoutContext(100 * time.Millisecond)
				cl.Conn(ctx)
				ctx.Free()
				ctx = async.TimeoutContext(100 * time.Millisecond)
				if ch, st := cl.Channel(ctx); st.OK() {
					ch.Free()
				}
				ctx.Free()
			}
		}()
		userCalls = 3
	}
	// timers fire late on a busy machine and an observed gap is the nominal back-off plus that lateness: a probe
	// measures how late a 5 ms sleep wakes up during the observation; the comparisons below allow for twice that
	var lateMax atomic.Int64
	probeStop := make(chan struct{})
	go func() {
		for {
			select {
			case <-probeStop:
				return
			default:
			}
			t0 := time.Now()
			time.Sleep(5 * time.Millisecond)
			if over := int64(time.Since(t0) - 5*time.Millisecond); over > lateMax.Load() {
				lateMax.Store(over)
			}
		}
	}()
	time.Sleep(2500 * time.Millisecond)
	close(probeStop)
	late := 2 * time.Duration(lateMax.Load())
	mu.Lock()
	ds := append([]time.Time(nil), dials...)
	mu.Unlock()
	if len(ds) < 4 {
		t.Fatalf("infrastructure: only %d dials observed in 2.5 s", len(ds))
	}
	var gaps []time.Duration
	for i := 1; i < len(ds); i++ {
		gaps = append(gaps, ds[i].Sub(ds[i-1]))
	}
	kase := map[string]any{"gaps_ms": fmt.Sprint(gaps), "user_calls_during_the_outage": userCalls, "timer_lateness_allowed": late.String()}
	ev.Label(c19, "backoff-observed:timer-lateness-ms", late.Milliseconds())
	for i, g := range gaps {
		if g < 25*time.Millisecond {
			ev.Violation(t, c19, "backoff-observed-too-short", kase, "consecutive failed dials %d and %d are only %v apart (< 25 ms)", i, i+1, g)
		}
		if g > time.Second+1500*time.Millisecond+late {
			ev.Violation(t, c19, "backoff-observed-too-long", kase, "gap %d between failed dials is %v (> 1 s plus slack)", i, g)
		}
		if i > 0 && float64(g) < 0.75*float64(gaps[i-1]-late) && gaps[i-1] < 1200*time.Millisecond {
			ev.Violation(t, c19, "backoff-observed-decreases", kase, "gap %d (%v) is shorter than the previous one (%v) within one run of failures", i, g, gaps[i-1])
		}
	}
	// recovery by itself
	if err := px.StartListening(); err != nil {
		t.Fatalf("infrastructure: %v", err)
	}
	select {
	case <-cl.Connected().Wait():
	case <-time.After(5 * time.Second):
		ev.Violation(t, c19, "no-auto-reconnect", kase, "auto-connect client did not connect within 5 s after the server became reachable")
	}
	ev.Case(c19, ev.Hash("backoff-observed", len(gaps)), true, "backoff-observed")
	ev.Case(c19, ev.Hash("backoff-observed-2", len(gaps)), true, "backoff-observed")
	ev.Sample(c19, kase)
}

func echoHandler() mpx.Handler {
	return mpx.HandleFunc(func(ctx mpx.Context, ch mpx.Channel) status.Status {
		for {
			m, st := ch.Receive(ctx)
			if !st.OK() {
				return status.OK
			}
			if st := ch.Send(ctx, m); !st.OK() {
				return status.OK
			}
		}
	})
}

type c19case struct {
	Mode    string   `json:"mode"`
	Max     int      `json:"max_conns"`
	Target  int      `json:"channel_target"`
	Steps   []string `json:"steps"`
	Failure string   `json:"failure,omitempty"`
}

func TestC19_StateMachine(t *testing.T) {
	ev.Rule(c19, "rapid state machine over a real mpx.Client (on-demand and auto-connect, MaxConns 1..4, channel target 1..8) behind a counting proxy: actions {open a channel and keep it, round trip on an open channel, free a channel, burst of 2..12 concurrent Channel calls, kill all connections, kill all connections and reset the replacement connection after 0..8 handshake bytes while its connect routine is held between dial and registration (schedule point 16), with MaxConns >= 2 and one live connection: fill its channel target and reset the additional connection inside the same window (then optionally Close), server unreachable, server reachable, 50 ms dial latency, Close, quiesce}; invariants at quiescent points (polled until stable): exactly one of Connected/Disconnected, Connected => Conn OK and a channel round-trips, proxy-side live connections <= MaxConns (high-water mark over intervals without kills), after Close: second Close OK, calls return a closed status, live connections drop to 0 and stay 0; after the server is back an on-demand client's next call succeeds and an auto-connect client reconnects by itself (a connection appears at the proxy before the check makes any call); non-trivial = run contains a kill-and-recover and a concurrent burst, or a Close racing a dial; distinct by step hash")
	srv, err := netfx.StartServer(echoHandler(), netfx.NewLogger(), mpx.Default())
	if err != nil {
		t.Fatalf("infrastructure: %v", err)
	}
	defer srv.Stop()
	ev.Check(t, c19, func(rt *rapid.T) {
		defer drawSched(rt).install()() // seeded yields at the library's schedule points
		px, err := netfx.NewProxy(srv.Addr)
		if err != nil {
			ev.InfraSkip(rt, c19, "%v", err)
		}
		defer px.Close()
		opts := mpx.Default()
		opts.Compression = false
		opts.ClientMaxConns = rapid.IntRange(1, 4).Draw(rt, "maxconns")
		opts.ClientConnChannels = rapid.IntRange(1, 8).Draw(rt, "target")
		opts.ClientDialTimeout = 2 * time.Second
		auto := rapid.Bool().Draw(rt, "auto")
		mode := mpx.ClientMode_OnDemand
		if auto {
			mode = mpx.ClientMode_AutoConnect
		}
		cl := mpx.NewClient(px.Addr(), mode, netfx.NewLogger(), opts)
		defer cl.Close()
		kase := &c19case{Mode: map[bool]string{true: "auto-connect", false: "on-demand"}[auto], Max: opts.ClientMaxConns, Target: opts.ClientConnChannels}
		step := func(format string, a ...any) { kase.Steps = append(kase.Steps, fmt.Sprintf(format, a...)) }
		fail := func(key, format string, a ...any) {
			kase.Failure = fmt.Sprintf(format, a...)
			ev.Violation(rt, c19, key, kase, format, a...)
		}
		var open []mpx.Channel
		defer func() {
			for _, ch := range open {
				ch.Free()
			}
		}()
		closed, up, dirty := false, true, false
		killRecover, burst, closeRace := false, false, false
		px.HighLive.Store(0)
		ctx := func() async.Context { return async.TimeoutContext(5 * time.Second) }
		roundTrip := func(ch mpx.Channel) status.Status {
			p := netfx.Make(netfx.Header{Chan: 19}, 24)
			if st := ch.Send(ctx(), p); !st.OK() {
				return st
			}
			m, st := ch.Receive(ctx())
			if st.OK() && string(m) != string(p) {
				return status.Newf("corrupt", "echo differs")
			}
			return st
		}
		// "reconnects by itself": no call is made until the client has a connection again
		// (a call would take the client's slow path and connect on demand)
		waitSelf := func(when string) {
			for dl := time.Now().Add(boundArrive()); px.Live.Load() == 0; {
				if time.Now().After(dl) {
					fail("no-auto-reconnect", "%s: the server is reachable, the auto-connect client has no connection and did not open one by itself within %v (no call was made meanwhile; Connected=%v Disconnected=%v)", when, boundArrive(), cl.Connected().IsSet(), cl.Disconnected().IsSet())
				}
				time.Sleep(time.Millisecond)
			}
		}
		// persist repeats a Channel call for up to 6 s
		persist := func() (mpx.Channel, status.Status, bool) {
			var last status.Status
			for dl := time.Now().Add(6 * time.Second); time.Now().Before(dl); {
				ch, st := cl.Channel(ctx())
				if st.OK() {
					ev.Label(c19, "call-succeeded-on-retry", 1)
					return ch, st, true
				}
				last = st
				time.Sleep(20 * time.Millisecond)
			}
			return nil, last, false
		}
		quiesce := func() {
			step("quiesce")
			// settle: poll until flags are consistent and stable
			deadline := time.Now().Add(5 * time.Second)
			for {
				c, d := cl.Connected().IsSet(), cl.Disconnected().IsSet()
				if c != d {
					break
				}
				if time.Now().After(deadline) {
					fail("flags-inconsistent", "client quiescent for 5 s with Connected=%v Disconnected=%v (exactly one must be set)", c, d)
				}
				time.Sleep(time.Millisecond)
			}
			if closed {
				if !cl.Closed().IsSet() {
					fail("close-not-terminal", "Closed flag not set after Close")
				}
				if st := cl.Close(); !st.OK() {
					fail("close-not-idempotent", "second Close returned %v", st)
				}
				if _, st := cl.Conn(ctx()); st.OK() {
					fail("close-not-terminal", "Conn() succeeded after Close")
				}
				if ch, st := cl.Channel(ctx()); st.OK() {
					ch.Free()
					fail("close-not-terminal", "Channel() succeeded after Close")
				}
				if cl.Connected().IsSet() {
					fail("close-not-terminal", "Connected still set after Close")
				}
				// no connection is left open, and none appears later (late dial results are closed)
				// "left open" = still there when things have settled: a dial that was already under way
				// (or that a late close callback of an auto-connect client starts) may surface briefly and
				// must then be closed by the client; required: no connection for 300 ms in a row within 6 s
				dl := time.Now().Add(6 * time.Second)
				var zeroSince time.Time
				for {
					if n := px.Live.Load(); n != 0 {
						zeroSince = time.Time{}
						if time.Now().After(dl) {
							fail("connection-left-open", "%d connections still open 6 s after Close", n)
						}
					} else if zeroSince.IsZero() {
						zeroSince = time.Now()
					} else if time.Since(zeroSince) > 300*time.Millisecond {
						break
					}
					time.Sleep(time.Millisecond)
				}
				return
			}
			if up {
				// quiescent = re-checked until stable: the client may need a moment to notice a
				// loss that happened just before; the checks must hold within 6 s
				if auto {
					waitSelf("at a quiescent point")
				}
				var problem, key string
				for dl := time.Now().Add(6 * time.Second); ; {
					problem, key = "", ""
					if auto && !cl.Connected().IsSet() {
						key, problem = "no-auto-reconnect", "auto-connect client not connected although the server is reachable"
					} else if ch, st := cl.Channel(ctx()); !st.OK() {
						key, problem = "no-recovery", fmt.Sprintf("server reachable but Channel() returned %v", st)
					} else {
						if st := roundTrip(ch); !st.OK() {
							key, problem = "connected-but-unusable", fmt.Sprintf("server reachable, Channel() OK, but a round trip returned %v", st)
						}
						ch.Free()
						if problem == "" && !cl.Connected().IsSet() {
							key, problem = "flags-inconsistent", "a call just succeeded but Connected is not set"
						}
						if problem == "" {
							if _, st := cl.Conn(ctx()); !st.OK() {
								key, problem = "connected-but-unusable", fmt.Sprintf("Connected is set but Conn() returned %v", st)
							}
						}
					}
					if problem == "" {
						break
					}
					if time.Now().After(dl) {
						fail(key, "%s (re-checked for 6 s)", problem)
					}
					time.Sleep(20 * time.Millisecond)
				}
			}
			if n := px.Live.Load(); int(n) > opts.ClientMaxConns {
				fail("too-many-connections", "%d simultaneous connections at a quiescent point, MaxConns=%d", n, opts.ClientMaxConns)
			}
			if h := px.HighLive.Load(); !dirty && int(h) > opts.ClientMaxConns {
				fail("too-many-connections", "high-water mark of %d simultaneous connections in an interval without kills, MaxConns=%d", h, opts.ClientMaxConns)
			}
			px.HighLive.Store(px.Live.Load())
			dirty = false
		}
		n := rapid.IntRange(3, 18).Draw(rt, "steps")
		for i := 0; i < n; i++ {
			switch rapid.IntRange(0, 10).Draw(rt, "action") {
			case 10:
				// an additional connection (opened because the channel target of the only live connection is
				// reached) is reset while its connect routine is between dial and registration: its close
				// callback runs for a connection that was never registered and must leave the live one alone
				if closed || !up || opts.ClientMaxConns < 2 || px.Live.Load() != 1 {
					continue
				}
				after := rapid.IntRange(0, 8).Draw(rt, "extracutafter")
				px.SetPlan(netfx.Plan{Kind: netfx.CutRST, Dir: 0, After: after})
				px.Hold()
				var trapped atomic.Bool
				disarm := setTrap(mpx.VerifPointClientConnStarted, func() {
					px.Release()
					time.Sleep(30 * time.Millisecond)
					trapped.Store(true)
				})
				opened := 0
				for k := 0; k <= opts.ClientConnChannels && !trapped.Load(); k++ {
					ch, st := cl.Channel(ctx())
					if !st.OK() {
						break
					}
					open = append(open, ch)
					opened++
					time.Sleep(2 * time.Millisecond)
				}
				for dl := time.Now().Add(time.Second); !trapped.Load() && time.Now().Before(dl); {
					time.Sleep(time.Millisecond)
				}
				fired := disarm()
				px.Release()
				px.SetPlan(netfx.Plan{})
				dirty = true
				step("opened %d channels on the only connection; the additional connection is reset after %d bytes inside its connect window (trap fired: %v)", opened, after, fired)
				if fired {
					ev.Label(c19, "extra-connection-died-inside-connect-window", 1)
					time.Sleep(40 * time.Millisecond)
					if rapid.Bool().Draw(rt, "thenclose") {
						st := cl.Close()
						step("close -> %v", st.Code)
						if !st.OK() {
							fail("close-failed", "Close returned %v", st)
						}
						closed = true
						for _, ch := range open {
							ch.Free()
						}
						open = nil
						quiesce()
					}
				}
			case 0, 1: // open and keep
				ch, st := cl.Channel(ctx())
				step("open -> %v", st.Code)
				switch {
				case closed && st.OK():
					ch.Free()
					fail("close-not-terminal", "Channel() succeeded after Close")
				case !closed && up && !st.OK() && !dirty:
					// one failed call is not yet "cannot obtain a connection" (a dial can time out on a busy
					// machine): it is when calls keep failing
					if ch2, st2, ok := persist(); ok {
						ch, st = ch2, st2
						if st := roundTrip(ch); !st.OK() {
							ch.Free()
							fail("connected-but-unusable", "fresh channel round trip returned %v", st)
						}
						open = append(open, ch)
					} else {
						fail("no-recovery", "server reachable, no fault since the last quiescent point, but Channel() returned %v and kept failing for 6 s (last: %v)", st, st2)
					}
				case st.OK():
					if st := roundTrip(ch); !st.OK() && up && !dirty {
						ch.Free()
						fail("connected-but-unusable", "fresh channel round trip returned %v", st)
					}
					open = append(open, ch)
				}
			case 2: // free one
				if len(open) > 0 {
					k := rapid.IntRange(0, len(open)-1).Draw(rt, "freeidx")
					open[k].Free()
					open = append(open[:k], open[k+1:]...)
					step("free")
				}
			case 3: // burst
				k := rapid.IntRange(2, 12).Draw(rt, "burst")
				step("burst %d", k)
				burst = true
				var wg sync.WaitGroup
				var mu sync.Mutex
				var bad string
				for j := 0; j < k; j++ {
					wg.Add(1)
					go func() {
						defer wg.Done()
						ch, st := cl.Channel(ctx())
						mu.Lock()
						defer mu.Unlock()
						if st.OK() {
							if closed {
								bad = "Channel() succeeded after Close"
							}
							open = append(open, ch)
						} else if !closed && up && !dirty {
							bad = fmt.Sprintf("concurrent Channel() returned %v with the server reachable", st)
						}
					}()
				}
				wg.Wait()
				if closed && bad != "" {
					fail("close-not-terminal", "%s", bad)
				}
				if bad != "" {
					if ch, _, ok := persist(); ok {
						open = append(open, ch)
					} else {
						fail("burst-failed", "%s (and calls kept failing for 6 s)", bad)
					}
				}
			case 4: // kill
				if !closed && up && rapid.IntRange(0, 2).Draw(rt, "killinwindow") == 0 {
					// the replacement connection dies between "dial returned" and "connection registered"
					// (schedule point 16): the proxy holds the accepted connection, starts forwarding when
					// the connect routine reaches the point and resets it after a few handshake bytes, while
					// the routine is held for 30 ms. The client has to drop that connection again.
					after := rapid.IntRange(0, 8).Draw(rt, "windowcutafter")
					step("kill all connections; the next one is reset after %d bytes while its connect routine is between dial and registration", after)
					px.SetPlan(netfx.Plan{Kind: netfx.CutRST, Dir: 0, After: after})
					px.Hold()
					disarm := setTrap(mpx.VerifPointClientConnStarted, func() {
						px.Release()
						time.Sleep(30 * time.Millisecond)
					})
					px.KillAll(netfx.CutRST)
					t0 := time.Now().UnixNano()
					for _, ch := range open {
						ch.Free()
					}
					open = nil
					if !auto {
						if ch, st := cl.Channel(ctx()); st.OK() {
							ch.Free()
						}
					} else {
						// the auto-connect client dials by itself; wait for the held routine to pass
						for dl := time.Now().Add(3 * time.Second); px.CutAt.Load() < t0 && time.Now().Before(dl); {
							time.Sleep(time.Millisecond)
						}
						time.Sleep(40 * time.Millisecond)
					}
					fired := disarm()
					if fired {
						ev.Label(c19, "connection-died-inside-connect-window", 1)
					}
					px.Release()
					px.SetPlan(netfx.Plan{})
					dirty, killRecover = true, true
					if auto {
						waitSelf("after the replacement connection was reset inside the connect window")
						if fired && rapid.Bool().Draw(rt, "killagain") {
							step("kill all connections again, no call in between")
							px.KillAll(netfx.CutRST)
							waitSelf("after the connections were lost a second time")
						}
					}
					continue
				}
				step("kill all connections")
				px.KillAll(netfx.CutRST)
				dirty = true
				for _, ch := range open {
					ch.Free()
				}
				open = nil
				if up {
					killRecover = true
				}
			case 5:
				step("server unreachable")
				if up {
					px.StopListening()
				}
				px.KillAll(netfx.CutRST)
				up, dirty = false, true
				for _, ch := range open {
					ch.Free()
				}
				open = nil
			case 6:
				step("server reachable")
				if !up {
					if err := px.StartListening(); err != nil {
						ev.InfraSkip(rt, c19, "%v", err)
					}
					killRecover = true
				}
				up = true
				dirty = true
			case 7:
				lat := []time.Duration{0, 50 * time.Millisecond}[rapid.IntRange(0, 1).Draw(rt, "latency")]
				step("dial latency %v", lat)
				px.SetLatency(lat)
			case 8:
				if dc := rapid.IntRange(0, 2).Draw(rt, "doclose"); dc <= 1 {
					racing := dc == 1 || rapid.Bool().Draw(rt, "closeracesdial")
					if racing && !closed && up && (dc == 1 || rapid.Bool().Draw(rt, "closeinwindow")) {
						// Close placed exactly between "dial returned" and "connection registered" of a
						// connect routine (schedule point 16): the trap runs Close to completion inside
						// the connect goroutine's window
						closeRace = true
						px.KillAll(netfx.CutRST)
						for _, ch := range open {
							ch.Free()
						}
						open = nil
						var cst status.Status
						closeDone := make(chan struct{})
						disarm := setTrap(mpx.VerifPointClientConnStarted, func() {
							go func() { cst = cl.Close(); close(closeDone) }()
							select {
							case <-closeDone:
							case <-time.After(2 * time.Second): // hold the connect routine at most this long
							}
						})
						if ch, st := cl.Channel(ctx()); st.OK() {
							ch.Free()
						}
						fired := disarm()
						if fired {
							select {
							case <-closeDone:
							case <-time.After(boundArrive()):
								fail("close-hangs", "Close started while a connect routine was between dial and registration did not return within %v", boundArrive())
							}
						}
						step("close inside the connect window (trap fired: %v) -> %v", fired, cst.Code)
						if fired {
							ev.Label(c19, "close-inside-connect-window", 1)
							if !cst.OK() {
								fail("close-failed", "Close returned %v", cst)
							}
							closed, dirty = true, true
							continue
						}
					}
					if racing && !closed {
						// Close racing a dial: start a Channel call and close at once
						closeRace = true
						px.KillAll(netfx.CutRST)
						px.SetLatency(30 * time.Millisecond)
						go func() {
							if ch, st := cl.Channel(ctx()); st.OK() {
								ch.Free()
							}
						}()
						time.Sleep(time.Duration(rapid.IntRange(0, 40).Draw(rt, "closedelayms")) * time.Millisecond)
					}
					st := cl.Close()
					step("close -> %v (racing dial: %v)", st.Code, racing)
					if !st.OK() {
						fail("close-failed", "Close returned %v", st)
					}
					closed, dirty = true, true
					for _, ch := range open {
						ch.Free()
					}
					open = nil
				}
			default:
				quiesce()
			}
		}
		quiesce()
		nt := (killRecover && burst) || closeRace
		ev.Case(c19, ev.Hash(fmt.Sprint(kase.Steps), kase.Mode, kase.Max, kase.Target), nt, "mode="+kase.Mode, fmt.Sprintf("kill-recover=%v", killRecover), fmt.Sprintf("close-race=%v", closeRace))
		if ev.WantSample(c19) {
			ev.Sample(c19, kase)
		}
	})
}
