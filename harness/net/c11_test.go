package net

// C11 — server serves only negotiated connections and survives hostile peers.

import (
	"encoding/binary"
	"fmt"
	"github.com/basecomplextech/baselibrary/async"
	"net"
	"os"
	"runtime"
	"strconv"
	"strings"
	"sync"
	"sync/atomic"
	"testing"
	"time"

	"github.com/basecomplextech/baselibrary/status"
	"github.com/basecomplextech/spec/mpx"
	"pgregory.net/rapid"

	"verifharness/ev"
	"verifharness/gen"
	"verifharness/netfx"
	"verifharness/refcodec"
)

const c11 = "C11"

type c11env struct {
	srv     *netfx.Server
	log     *netfx.RecLogger
	healthy mpx.Conn
	hostile sync.Map // case marker -> *atomic.Int64 handler invocations
	hOK     atomic.Int64
	hErr    atomic.Value
	hStall  atomic.Int64 // unix nanos of the healthy client's last timed-out round trip
	// control: a second server in the same process that no hostile peer ever talks to, with its own
	// well-behaved client: if that one stalls too, the machine is overloaded and the case says nothing
	ctlSrv *netfx.Server
	ctl    mpx.Conn
	cOK    atomic.Int64
	cStall atomic.Int64
	stop   chan struct{}
	wg     sync.WaitGroup
}

func newC11Env() (*c11env, error) {
	e := &c11env{log: netfx.NewLogger(), stop: make(chan struct{})}
	handler := mpx.HandleFunc(func(ctx mpx.Context, ch mpx.Channel) status.Status {
		m, st := ch.Receive(ctx)
		if !st.OK() {
			// opened without payload: still a handler invocation; attribute to "any hostile"
			e.count("X?")
			return status.OK
		}
		if len(m) > 0 && m[0] == 'H' {
			return ch.SendAndClose(ctx, m)
		}
		key := "X?"
		if len(m) >= 9 && m[0] == 'X' {
			key = string(m[:9])
		}
		e.count(key)
		return ch.SendAndClose(ctx, m)
	})
	opts := mpx.Default()
	srv, err := netfx.StartServer(handler, e.log, opts)
	if err != nil {
		return nil, err
	}
	e.srv = srv
	c, st := mpx.Connect(ctxNone(), srv.Addr, netfx.NewLogger(), opts)
	if !st.OK() {
		return nil, fmt.Errorf("healthy connect: %v", st)
	}
	e.healthy = c
	echo := mpx.HandleFunc(func(ctx mpx.Context, ch mpx.Channel) status.Status {
		m, st := ch.Receive(ctx)
		if !st.OK() {
			return status.OK
		}
		return ch.SendAndClose(ctx, m)
	})
	ctlSrv, err := netfx.StartServer(echo, netfx.NewLogger(), opts)
	if err != nil {
		return nil, err
	}
	e.ctlSrv = ctlSrv
	cc, st := mpx.Connect(ctxNone(), ctlSrv.Addr, netfx.NewLogger(), opts)
	if !st.OK() {
		return nil, fmt.Errorf("control connect: %v", st)
	}
	e.ctl = cc
	loop := func(conn mpx.Conn, ok, stall *atomic.Int64, fatal *atomic.Value) {
		defer e.wg.Done()
		for i := 0; ; i++ {
			select {
			case <-e.stop:
				return
			default:
			}
			err, timedOut := e.roundTrip(conn, i)
			switch {
			case timedOut:
				stall.Store(time.Now().UnixNano())
			case err != nil:
				if fatal != nil {
					fatal.Store(err.Error())
				}
				return
			default:
				ok.Add(1)
			}
			time.Sleep(200 * time.Microsecond)
		}
	}
	e.wg.Add(2)
	go loop(e.healthy, &e.hOK, &e.hStall, &e.hErr)
	go loop(e.ctl, &e.cOK, &e.cStall, nil)
	return e, nil
}

func (e *c11env) count(key string) {
	v, _ := e.hostile.LoadOrStore(key, &atomic.Int64{})
	v.(*atomic.Int64).Add(1)
}

func (e *c11env) handlerCount(key string) int64 {
	n := int64(0)
	if v, ok := e.hostile.Load(key); ok {
		n += v.(*atomic.Int64).Load()
	}
	return n
}

func (e *c11env) roundTrip(conn mpx.Conn, i int) (err error, timedOut bool) {
	ch, st := conn.Channel(ctxNone())
	if !st.OK() {
		return fmt.Errorf("healthy Channel(): %v", st), false
	}
	defer ch.Free()
	p := append([]byte("H"), netfx.Make(netfx.Header{Chan: uint32(i)}, 40+i%200)...)
	if st := ch.Send(ctxNone(), p); !st.OK() {
		return fmt.Errorf("healthy Send: %v", st), false
	}
	ctx := async.TimeoutContext(healthyTimeout())
	defer ctx.Free()
	m, st := ch.Receive(ctx)
	if !st.OK() {
		if st.Code == status.CodeTimeout {
			return fmt.Errorf("healthy Receive: %v (round trip %d, %d bytes sent)", st, i, len(p)), true
		}
		return fmt.Errorf("healthy Receive: %v (round trip %d, %d bytes sent)", st, i, len(p)), false
	}
	if string(m) != string(p) {
		return fmt.Errorf("healthy echo corrupted (%d bytes, want %d)", len(m), len(p)), false
	}
	return nil, false
}

// healthyTimeout bounds one echo round trip of the well-behaved and of the control client (8 s, below the
// 20 s progress bound, so that a stall is on record when progress is judged; VERIF_C11_HEALTHY_S overrides).
func healthyTimeout() time.Duration {
	if v := os.Getenv("VERIF_C11_HEALTHY_S"); v != "" {
		if n, err := strconv.Atoi(v); err == nil {
			return time.Duration(n) * time.Second
		}
	}
	return 8 * time.Second
}

func (e *c11env) close() {
	close(e.stop)
	e.wg.Wait()
	e.healthy.Close()
	e.ctl.Close()
	e.srv.Stop()
	e.ctlSrv.Stop()
}

var c11seq atomic.Uint32

func marker() string { return fmt.Sprintf("X%08d", c11seq.Add(1)) }

func frameBytes(body []byte) []byte {
	var h [4]byte
	binary.BigEndian.PutUint32(h[:], uint32(len(body)))
	return append(h[:], body...)
}

// healthyCheck verifies the well-behaved client after a hostile script.
func (e *c11env) healthyCheck(rt *rapid.T, kase any, before int64) {
	// the healthy client must make progress after the script; a stall counts against the hostile script only
	// if the control client (own server, no hostile traffic) kept going meanwhile
	start := time.Now()
	cBefore := e.cOK.Load()
	overloaded := func() bool {
		return e.cStall.Load() > start.Add(-healthyTimeout()).UnixNano() || e.cOK.Load() <= cBefore+1
	}
	deadline := start.Add(boundArrive())
	for e.hOK.Load() <= before+1 {
		if v := e.hErr.Load(); v != nil {
			ev.Violation(rt, c11, "healthy-client-disturbed", kase, "well-behaved client on another connection failed: %v; server log: %v", v, e.log.Records())
		}
		if time.Now().After(deadline) {
			if overloaded() {
				ev.InfraSkip(rt, c11, "neither the well-behaved client nor the control client (separate server without hostile traffic) made progress for %v: machine overloaded", boundArrive())
			}
			ev.Violation(rt, c11, "healthy-client-disturbed", kase, "well-behaved client made no progress for %v after the hostile script while the control client on an untouched server completed %d round trips", boundArrive(), e.cOK.Load()-cBefore)
		}
		time.Sleep(time.Millisecond)
	}
	if hs := e.hStall.Load(); hs > start.Add(-healthyTimeout()).UnixNano() && e.cStall.Load() < hs-int64(2*healthyTimeout()) {
		ev.Violation(rt, c11, "healthy-client-disturbed", kase, "a round trip of the well-behaved client timed out after %v around this hostile script while the control client on an untouched server kept completing round trips (%d since)", healthyTimeout(), e.cOK.Load()-cBefore)
	}
	if e.healthy.Closed().IsSet() {
		ev.Violation(rt, c11, "healthy-client-disturbed", kase, "well-behaved client's connection was closed")
	}
	if !e.srv.S.Running().IsSet() {
		ev.Violation(rt, c11, "server-stopped", kase, "server is no longer running: %v", e.srv.S.Status())
	}
}

type c11hsCase struct {
	Variant string `json:"handshake_variant"`
	Sent    string `json:"bytes_sent_hex"`
	Marker  string `json:"marker"`
	Expect  string `json:"expectation"`
}

// nearMissLine returns a first line that differs from the exact protocol line "SpecMPX/1\n" by a small edit.
func nearMissLine(rt *rapid.T) string {
	base := strings.TrimSuffix(netfx.ProtocolLine, "\n") // "SpecMPX/1"
	junk := []string{" ", "\r", ".", ".0", ".1", "x", "0", "\t", " GET / HTTP/1.1", "/", ";", "\x00", "1"}
	j := junk[rapid.IntRange(0, len(junk)-1).Draw(rt, "junk")]
	var line string
	switch rapid.IntRange(0, 7).Draw(rt, "nearmiss") {
	case 0:
		line = base + j + "\n" // trailing junk before the newline
	case 1:
		line = j + base + "\n" // leading junk
	case 2:
		line = strings.Replace(base, "/1", "/"+[]string{"01", "+1", "001", "1e0", " 1", "0x1", "１"}[rapid.IntRange(0, 6).Draw(rt, "ver")], 1) + "\n"
	case 3:
		line = []string{"specmpx/1", "SPECMPX/1", "SpecMpx/1", "SpecMPX\\1", "SpecMPX//1", "SpecMPX 1", "SpecMPX/"}[rapid.IntRange(0, 6).Draw(rt, "case")] + "\n"
	case 4:
		line = base + "\r\n"
	case 5:
		line = "\n" + base + "\n" // empty first line
	case 6:
		line = base[:len(base)-1] + []string{"2", "0", "10", "11", "9", "-1"}[rapid.IntRange(0, 5).Draw(rt, "othernum")] + "\n"
	default:
		k := rapid.IntRange(0, len(base)-1).Draw(rt, "flip")
		b := []byte(base)
		b[k] ^= byte(1 << uint(rapid.IntRange(0, 6).Draw(rt, "bit")))
		line = string(b) + "\n"
	}
	if line == netfx.ProtocolLine {
		line = base + " \n"
	}
	return line
}

// drawVersions draws a proposed version list; with10 puts the only existing protocol version (10) somewhere in it.
func drawVersions(rt *rapid.T, with10 bool) []int32 {
	n := rapid.IntRange(1, 4).Draw(rt, "nver")
	var vs []int32
	for i := 0; i < n; i++ {
		var v int
		switch rapid.IntRange(0, 5).Draw(rt, "verclass") {
		case 0:
			v = rapid.IntRange(1, 9).Draw(rt, "verbelow")
		case 1:
			v = rapid.IntRange(11, 20).Draw(rt, "verabove")
		case 2:
			v = 0
		case 3:
			v = rapid.IntRange(-1000, -1).Draw(rt, "verneg")
		case 4:
			v = rapid.IntRange(21, 100000).Draw(rt, "verbig")
		default:
			v = []int{2147483647, -2147483648, 255, 256, 65535, 65536}[rapid.IntRange(0, 5).Draw(rt, "verextreme")]
		}
		vs = append(vs, int32(v))
	}
	if with10 {
		vs[rapid.IntRange(0, len(vs)-1).Draw(rt, "pos10")] = 10
	}
	return vs
}

func TestC11_Handshake(t *testing.T) {
	ev.Rule(c11, "handshake family: raw TCP peer sends a drawn handshake variation (no/wrong/partial protocol line, first frame that is not a connect request (also: a valid request body under another frame code or without a code), empty or unknown-only version list, unknown compression ids, lz4 offered then plain bytes, truncated request, zero-length frame, garbage), then tries to open a channel carrying a per-case marker; a well-behaved real client runs echo traffic on another connection throughout; oracle: handler invocations with that marker are 0 unless the handshake completed with the protocol line and a common version, a refused or violating connection is closed (EOF within 10 s) once the complete violating line/frame was sent, the healthy client keeps working, the server keeps running; non-trivial = every variant that must be refused; distinct by sent bytes")
	e, err := newC11Env()
	if err != nil {
		t.Fatalf("infrastructure: %v", err)
	}
	defer e.close()
	variants := []string{"no-line", "wrong-line", "near-miss-line", "http-line", "partial-line", "first-frame-open", "first-frame-garbage-msg", "empty-versions", "unknown-versions",
		"mixed-versions", "unknown-compression", "lz4-then-plain", "truncated-request", "zero-length-frame", "nonrequest-then-valid-request", "request-body-under-another-code", "garbage", "response-as-request", "valid"}
	ev.CheckScaled(t, c11, 1, 1, func(rt *rapid.T) {
		v := variants[rapid.IntRange(0, len(variants)-1).Draw(rt, "variant")]
		mk := marker()
		before := e.hOK.Load()
		c, err := netfx.DialLoopback(e.srv.Addr, 5*time.Second)
		if err != nil {
			ev.InfraSkip(rt, c11, "%v", err)
		}
		defer c.Close()
		p := netfx.NewRawPeer(c)
		openFrame := frameBytes(netfx.Encode(netfx.OpenMsg(netfx.MakeID(c11seq.Load()), 1<<20, []byte(mk+"-payload"))))
		req := func(versions, comps []int32) []byte {
			return frameBytes(netfx.Encode(netfx.ConnectRequestMsg(versions, comps)))
		}
		var send []byte
		mustServe, mustClose := false, true
		switch v {
		case "no-line":
			send = req([]int32{10}, nil)
		case "wrong-line":
			send = append([]byte("SpecMPX/2\n"), req([]int32{10}, nil)...)
		case "near-miss-line":
			// one small edit away from the exact protocol line: trailing or leading junk, CRLF, a
			// version that only parses to 1, case changes, a longer version number
			line := nearMissLine(rt)
			send = append([]byte(line), req([]int32{10}, nil)...)
		case "http-line":
			send = append([]byte("GET / HTTP/1.1\r\n"), req([]int32{10}, nil)...)
		case "partial-line":
			send = []byte("SpecMPX/1") // no newline, then silence: only "no handler" is required
			mustClose = false
		case "first-frame-open":
			send = append([]byte(netfx.ProtocolLine), openFrame...)
		case "first-frame-garbage-msg":
			g := rapid.SliceOfN(rapid.Byte(), 1, 40).Draw(rt, "garbagemsg")
			send = append([]byte(netfx.ProtocolLine), frameBytes(g)...)
		case "empty-versions":
			send = append([]byte(netfx.ProtocolLine), req(nil, nil)...)
		case "unknown-versions":
			// any list without the one existing version (10): neighbours below and above it, zero, negative, extreme
			send = append([]byte(netfx.ProtocolLine), req(drawVersions(rt, false), nil)...)
		case "mixed-versions":
			// the existing version among unknown ones, at any position: must be served
			send = append([]byte(netfx.ProtocolLine), req(drawVersions(rt, true), nil)...)
			mustServe, mustClose = true, false
		case "unknown-compression":
			send = append([]byte(netfx.ProtocolLine), req([]int32{10}, []int32{int32(rapid.IntRange(2, 99).Draw(rt, "comp"))})...)
			mustServe, mustClose = true, false
		case "lz4-then-plain":
			send = append([]byte(netfx.ProtocolLine), req([]int32{10}, []int32{1})...)
			// plain (uncompressed) open frame after lz4 was negotiated
		case "truncated-request":
			full := req([]int32{10}, nil)
			send = append([]byte(netfx.ProtocolLine), full[:rapid.IntRange(1, len(full)-1).Draw(rt, "cut")]...)
			mustClose = false // incomplete frame followed by silence: server may keep waiting
		case "zero-length-frame":
			send = append([]byte(netfx.ProtocolLine), 0, 0, 0, 0)
		case "nonrequest-then-valid-request":
			// "one that sends anything else first is closed": the first frame is not a connect request (empty,
			// an open frame, a connect response, a one-byte garbage message) and a perfectly valid request follows
			// at once; the server must not skip ahead to it
			var firstFrame []byte
			switch rapid.IntRange(0, 3).Draw(rt, "nonrequest") {
			case 0:
				firstFrame = []byte{0, 0, 0, 0}
			case 1:
				firstFrame = openFrame
			case 2:
				firstFrame = frameBytes(netfx.Encode(netfx.ConnectResponseMsg(true, "", 10, 0)))
			default:
				firstFrame = frameBytes([]byte{0x01})
			}
			send = append([]byte(netfx.ProtocolLine), firstFrame...)
			send = append(send, req([]int32{10}, nil)...)
		case "request-body-under-another-code":
			// what a frame is is said by its code: a first frame whose code is not "connect request" is not a
			// connect request, whatever bodies it carries. A complete, valid request body travels under the
			// code of an open / data / close / window / batch / response frame, an undefined code, or no code.
			n := netfx.ConnectRequestMsg([]int32{10}, nil)
			codes := []int32{0, netfx.CodeConnectResponse, netfx.CodeBatch, netfx.CodeOpen, netfx.CodeClose, netfx.CodeData, netfx.CodeWindow, 4, 99, -1, 257}
			if k := rapid.IntRange(0, len(codes)).Draw(rt, "othercode"); k == len(codes) {
				n.Fields = n.Fields[1:] // no code field at all
			} else {
				n.Fields[0] = gen.F(1, gen.Int32(codes[k]))
				if codes[k] == netfx.CodeOpen && rapid.Bool().Draw(rt, "withopenbody") {
					// and the body that belongs to the code as well
					n.Fields = append(n.Fields, netfx.OpenMsg(netfx.MakeID(c11seq.Load()+2000000), 1<<20, []byte(mk+"-first")).Fields[1])
				}
			}
			send = append([]byte(netfx.ProtocolLine), frameBytes(netfx.Encode(n))...)
		case "garbage":
			send = rapid.SliceOfN(rapid.Byte(), 1, 64).Draw(rt, "garbage")
			mustClose = false // may not contain a newline: server legitimately keeps waiting for the line
			for _, b := range send {
				if b == '\n' {
					mustClose = true
				}
			}
			if strings.HasPrefix(string(send), netfx.ProtocolLine) {
				mustClose = false
			}
		case "response-as-request":
			send = append([]byte(netfx.ProtocolLine), frameBytes(netfx.Encode(netfx.ConnectResponseMsg(true, "", 10, 0)))...)
		case "valid":
			send = append([]byte(netfx.ProtocolLine), req([]int32{10}, nil)...)
			mustServe, mustClose = true, false
		}
		kase := &c11hsCase{Variant: v, Sent: hexClip(send, 80), Marker: mk}
		p.WriteBytes(send)
		// follow up with channel opens carrying the marker (plain framing)
		time.Sleep(2 * time.Millisecond)
		p.WriteBytes(openFrame)
		p.WriteBytes(frameBytes(netfx.Encode(netfx.OpenMsg(netfx.MakeID(c11seq.Load()+1000000), 1<<20, []byte(mk+"-second")))))
		if mustServe {
			kase.Expect = "handshake is valid: served"
			deadline := time.Now().Add(boundArrive())
			for e.handlerCount(mk) < 2 {
				if time.Now().After(deadline) {
					ev.Violation(rt, c11, "valid-handshake-not-served", kase, "handler invoked %d times for a valid negotiation (want 2) within %v", e.handlerCount(mk), boundArrive())
				}
				time.Sleep(time.Millisecond)
			}
		} else {
			kase.Expect = fmt.Sprintf("no handler; closed=%v", mustClose)
			if mustClose {
				if err := p.ExpectEOF(boundArrive()); err != nil {
					ev.Violation(rt, c11, "violating-connection-not-closed", kase, "server did not close a connection that violated the handshake (%s): %v", v, err)
				}
			} else {
				time.Sleep(20 * time.Millisecond) // grace: a late handler can only be missed, never invented
			}
			if n := e.handlerCount(mk) + 0; n != 0 {
				ev.Violation(rt, c11, "handler-on-unnegotiated-connection", kase, "handler invoked %d times on a connection whose handshake did not complete (%s)", n, v)
			}
		}
		e.healthyCheck(rt, kase, before)
		ev.Case(c11, ev.Hash("hs", send), !mustServe, "handshake:"+v)
		if ev.WantSample(c11) {
			ev.Sample(c11, kase)
		}
	})
	// a handler attributed to no marker at all (opened without payload) on a refused connection
	if n := e.handlerCount("X?"); n != 0 {
		ev.Violation(t, c11, "handler-on-unnegotiated-connection", nil, "%d handler invocations without marker payload", n)
	}
	for _, v := range variants {
		ev.Require(c11, "handshake:"+v)
	}
}

func hexClip(b []byte, n int) string {
	if len(b) > n {
		return fmt.Sprintf("%x…(%d bytes)", b[:n], len(b))
	}
	return fmt.Sprintf("%x", b)
}

type c11postCase struct {
	Frames []string `json:"frames"`
	Marker string   `json:"marker"`
}

func TestC11_PostHandshake(t *testing.T) {
	ev.Rule(c11, "post-handshake family: after a correct handshake (with or without lz4) the raw peer sends 1..25 frames from a grammar {open, data, window, close, batch} with mutations: unknown codes, missing ids, nested batches, duplicate channel ids, frames for unknown/closed ids, window deltas {0,-1,MinInt32,MaxInt32}, open windows {0,-1,1}, structurally hostile payloads (C02 mutants) as whole frames and as nested fields, truncated frame then FIN, length prefixes up to 2^26 (2^32-1 in thorough) followed by few bytes, bursts of opens without closes; oracle: the process and server keep running, the healthy client on a second connection keeps echoing correctly with its connection open, every handler started on the hostile connection is for a distinct accepted open; a recovered panic confined to the hostile connection is recorded as a label; non-trivial = script contains >=1 frame the library's own writer cannot produce")
	e, err := newC11Env()
	if err != nil {
		t.Fatalf("infrastructure: %v", err)
	}
	defer e.close()
	ev.CheckScaled(t, c11, 1, 1, func(rt *rapid.T) {
		defer drawSched(rt).install()() // seeded yields at the library's schedule points
		mk := marker()
		before := e.hOK.Load()
		peer, err := netfx.DialRaw(e.srv.Addr)
		if err != nil {
			ev.InfraSkip(rt, c11, "%v", err)
		}
		defer peer.Close()
		lz := rapid.Bool().Draw(rt, "lz4")
		if _, err := peer.ClientHandshake(lz); err != nil {
			ev.InfraSkip(rt, c11, "handshake: %v", err)
		}
		kase := &c11postCase{Marker: mk}
		n := rapid.IntRange(1, 25).Draw(rt, "nframes")
		ids := []netfx.ID{netfx.MakeID(1), netfx.MakeID(2), netfx.MakeID(3)}
		hostile := false
		s := gen.RapidSrc{T: rt}
		opens := map[netfx.ID]int{}
		pickID := func() netfx.ID { return ids[rapid.IntRange(0, len(ids)-1).Draw(rt, "id")] }
		var mkFrame func(depth int) (*gen.Node, string)
		mkFrame = func(depth int) (*gen.Node, string) {
			switch rapid.IntRange(0, 11).Draw(rt, "frame") {
			case 0:
				id := pickID()
				opens[id]++
				if opens[id] > 1 {
					hostile = true
				}
				w := []int32{1 << 20, 0, -1, 1, 64}[rapid.IntRange(0, 4).Draw(rt, "openwindow")]
				if w <= 0 {
					hostile = true
				}
				return netfx.OpenMsg(id, w, []byte(mk+"-o")), fmt.Sprintf("open id=%d window=%d", id[15], w)
			case 1:
				return netfx.DataMsg(pickID(), []byte(mk+"-d")), "data"
			case 2:
				d := []int32{0, -1, -2147483648, 2147483647, 5}[rapid.IntRange(0, 4).Draw(rt, "delta")]
				hostile = hostile || d <= 0 || d == 2147483647
				return netfx.WindowMsg(pickID(), d), fmt.Sprintf("window delta=%d", d)
			case 3:
				return netfx.CloseMsg(pickID(), []byte(mk+"-c")), "close"
			case 4:
				if depth > 1 {
					return netfx.DataMsg(pickID(), nil), "data"
				}
				k := rapid.IntRange(0, 4).Draw(rt, "batchn")
				var ms []*gen.Node
				desc := "batch["
				for i := 0; i < k; i++ {
					m, d := mkFrame(depth + 1)
					ms = append(ms, m)
					desc += d + ";"
				}
				if depth == 1 {
					hostile = true // nested batch
				}
				return netfx.BatchMsg(ms...), desc + "]"
			case 5:
				hostile = true
				code := int32(rapid.IntRange(-3, 200).Draw(rt, "code"))
				return gen.Message(gen.F(1, gen.Int32(code)), gen.F(uint16(rapid.IntRange(0, 20).Draw(rt, "tag")), gen.Message(gen.F(1, gen.Bytes([]byte(mk)))))), fmt.Sprintf("unknown code %d", code)
			case 6:
				hostile = true // missing id
				return gen.Message(gen.F(1, gen.Int32(netfx.CodeData)), gen.F(12, gen.Message(gen.F(2, gen.Bytes([]byte(mk)))))), "data without id"
			case 7:
				hostile = true // wrong field kinds
				return gen.Message(gen.F(1, gen.String("x")), gen.F(10, gen.List(gen.Int32(1)))), "code as string, open as list"
			case 8:
				hostile = true // code and body disagree
				return gen.Message(gen.F(1, gen.Int32(netfx.CodeOpen)), gen.F(12, gen.Message(gen.F(1, &gen.Node{Kind: gen.KBin128, B: make([]byte, 16)})))), "open code with data body"
			case 9:
				hostile = true
				t, _ := gen.Tree(s, gen.Limits{MaxDepth: 3, MaxNodes: 10})
				return t, "arbitrary valid spec value as frame"
			default:
				id := netfx.MakeID(uint32(100 + rapid.IntRange(0, 3).Draw(rt, "freshid")))
				return netfx.OpenMsg(id, 1<<20, []byte(mk+"-o")), "open fresh"
			}
		}
		var bodies [][]byte
		for i := 0; i < n; i++ {
			m, d := mkFrame(0)
			b := netfx.Encode(m)
			if rapid.IntRange(0, 5).Draw(rt, "corrupt") == 0 && len(b) > 2 {
				// structural corruption of the encoded frame (C02-style)
				hostile = true
				pos := rapid.IntRange(0, len(b)-1).Draw(rt, "pos")
				b[pos] = rapid.Byte().Draw(rt, "val")
				d += fmt.Sprintf(" [byte %d corrupted]", pos)
			}
			bodies = append(bodies, b)
			kase.Frames = append(kase.Frames, d)
		}
		tail := rapid.IntRange(0, 4).Draw(rt, "tail")
		peer.WriteFrames(bodies...)
		switch tail {
		case 1:
			hostile = true
			kase.Frames = append(kase.Frames, "truncated frame then FIN")
			var h [4]byte
			binary.BigEndian.PutUint32(h[:], 1000)
			peer.WriteBytes(append(h[:], 1, 2, 3))
		case 2:
			hostile = true
			max := 26
			if ev.Thorough() {
				max = 32
			}
			if v := os.Getenv("VERIF_C11_HUGEBITS"); v != "" {
				max, _ = strconv.Atoi(v)
			}
			size := uint64(1)<<uint(rapid.IntRange(16, max).Draw(rt, "hugebits")) - uint64(rapid.IntRange(0, 1).Draw(rt, "hugeminus"))
			kase.Frames = append(kase.Frames, fmt.Sprintf("length prefix %d followed by 5 bytes", size))
			var h [4]byte
			binary.BigEndian.PutUint32(h[:], uint32(size))
			if !lz {
				peer.WriteBytes(append(h[:], 1, 2, 3, 4, 5))
			} else {
				peer.WriteFrames([]byte{1, 2, 3}) // inside lz4 keep framing intact
			}
		case 3:
			hostile = true
			kase.Frames = append(kase.Frames, "burst of 300 opens without closes")
			var burst [][]byte
			for i := 0; i < 300; i++ {
				burst = append(burst, netfx.Encode(netfx.OpenMsg(netfx.MakeID(uint32(5000+i)), 1<<20, nil)))
			}
			peer.WriteFrames(burst...)
		}
		time.Sleep(time.Duration(rapid.IntRange(0, 3).Draw(rt, "linger")) * time.Millisecond)
		peer.Close()
		e.healthyCheck(rt, kase, before)
		// recovered panics that only closed the hostile connection are a C02 matter: label only
		if ps := e.log.LibraryPanics(); len(ps) > 0 {
			ev.Label(c11, "recovered-panic-on-hostile-connection", 1)
			ev.Note(c11, "recovered panic confined to a hostile connection: "+ps[len(ps)-1].Status+" @ "+clipStr(ps[len(ps)-1].Stack, 300))
		}
		ev.Case(c11, ev.Hash("post", fmt.Sprint(kase.Frames), lz), hostile, fmt.Sprintf("post:hostile=%v", hostile), fmt.Sprintf("post:lz4=%v", lz), fmt.Sprintf("post:tail=%d", tail))
		if ev.WantSample(c11) {
			ev.Sample(c11, kase)
		}
	})
	_ = refcodec.TypeCodes
}

func clipStr(s string, n int) string {
	if len(s) > n {
		return s[:n]
	}
	return s
}

// TestC11_DeclaredSizeIsNotTrusted: "oversized frames ... the effect is confined to that peer's
// connection". A length prefix is only a claim; a peer that declares gigabytes and sends five bytes
// must not slow the other connections of the process down.
func TestC11_DeclaredSizeIsNotTrusted(t *testing.T) {
	e, err := newC11Env()
	if err != nil {
		t.Fatalf("infrastructure: %v", err)
	}
	defer e.close()
	ev.Rule(c11, "declared-size family: a raw peer (before or after a valid handshake) opens 8 connections 20 ms apart, each sending a length prefix of 2^28..2^32-1 followed by five bytes and staying open; oracle: the bytes the process allocates meanwhile (runtime TotalAlloc) stay below 8 x 16 MiB + 256 MiB, i.e. are bounded by what was received, not by what was declared (the mechanism by which such a peer slows every other connection down: measured 200x with stalls of seconds); the round-trip rate of the well-behaved client before and during is recorded; non-trivial = all")
	ev.CheckScaled(t, c11, 1, 25, func(rt *rapid.T) {
		bits := rapid.IntRange(28, 32).Draw(rt, "bits")
		size := uint64(1)<<uint(bits) - uint64(rapid.IntRange(0, 1).Draw(rt, "minus"))
		if size > 0xffffffff {
			size = 0xffffffff
		}
		afterHandshake := rapid.Bool().Draw(rt, "afterhandshake")
		kase := map[string]any{"declared_size": size, "after_handshake": afterHandshake}
		rate := func(d time.Duration) (h, c int64) {
			h0, c0 := e.hOK.Load(), e.cOK.Load()
			time.Sleep(d)
			return e.hOK.Load() - h0, e.cOK.Load() - c0
		}
		// K hostile connections, 20 ms apart, each declares the size, sends five bytes and stays open
		var ms0, ms1 runtime.MemStats
		runtime.ReadMemStats(&ms0)
		h0, _ := rate(100 * time.Millisecond)
		const K = 8
		var open []net.Conn
		hBefore := e.hOK.Load()
		t0 := time.Now()
		for i := 0; i < K; i++ {
			conn, err := netfx.DialLoopback(e.srv.Addr, 5*time.Second)
			if err != nil {
				ev.InfraSkip(rt, c11, "%v", err)
			}
			open = append(open, conn)
			p := netfx.NewRawPeer(conn)
			if afterHandshake {
				if _, err := p.ClientHandshake(false); err != nil {
					ev.InfraSkip(rt, c11, "raw handshake: %v", err)
				}
			} else {
				p.WriteBytes([]byte(netfx.ProtocolLine))
			}
			var h [4]byte
			binary.BigEndian.PutUint32(h[:], uint32(size))
			p.WriteBytes(append(h[:], 1, 2, 3, 4, 5))
			time.Sleep(20 * time.Millisecond)
		}
		time.Sleep(60 * time.Millisecond)
		h1 := (e.hOK.Load() - hBefore) * 100 / (time.Since(t0).Milliseconds() + 1)
		runtime.ReadMemStats(&ms1)
		for _, c := range open {
			c.Close()
		}
		allocated := ms1.TotalAlloc - ms0.TotalAlloc
		kase["process_bytes_allocated_meanwhile"] = allocated
		kase["healthy_round_trips_per_100ms"] = fmt.Sprintf("%d before, %d during", h0, h1)
		// what the process allocates while the peers are connected is bounded by what they actually sent plus a
		// bounded read step per connection (and the echo traffic of the two well-behaved clients), not by the claim
		if limit := uint64(K*(16<<20) + 256<<20); allocated > limit {
			ev.Violation(rt, c11, "declared-size-is-trusted", kase, "%d peers each declared a %d-byte frame and sent 5 bytes: the process allocated %d MiB meanwhile (limit %d MiB); well-behaved client: %d round trips per 100 ms before, %d during", K, size, allocated>>20, limit>>20, h0, h1)
		}
		if v := e.hErr.Load(); v != nil {
			ev.Violation(rt, c11, "healthy-client-disturbed", kase, "well-behaved client failed: %v", v)
		}
		ev.Case(c11, ev.Hash("declared", size, afterHandshake), true, "declared-size")
	})
}
