package codec

// C01 — writer-to-reader round trip preserves every value tree.

import (
	"fmt"
	"testing"

	"pgregory.net/rapid"

	"verifharness/ev"
	"verifharness/gen"
	"verifharness/prog"
	"verifharness/refcodec"
)

const c01 = "C01"

type c01case struct {
	Tree  string   `json:"tree"`
	Feats []string `json:"api_features"`
	Bytes string   `json:"bytes,omitempty"`
	Trace []string `json:"calls,omitempty"`
}

// roundTrip builds n with style source s and checks the reader side. It returns the
// bytes, features and effective tree.
func roundTrip(t ev.TB, id string, s gen.Src, n *gen.Node, seed uint64) ([]byte, *gen.Node, map[string]bool) {
	x := prog.NewExec(s)
	var trace []string
	x.Trace = &trace
	mk := func(b []byte) c01case {
		return c01case{Tree: n.Render(600), Feats: featList(x.Feats), Bytes: hexHead(b, 64), Trace: trace}
	}
	b, eff, err, pan := safeBuild(x, n)
	if pan != "" {
		ev.Violation(t, id, "writer-panic", mk(nil), "writer panicked on a legal program: %s", pan)
	}
	if err != nil {
		ev.Violation(t, id, "writer-error", mk(nil), "legal program failed: %v", err)
	}
	r := &prog.Reader{AbsentSeed: seed}
	if err, pan := safeCheck(r, n, b); pan != "" {
		ev.Violation(t, id, "reader-panic", mk(b), "reader panicked on writer output: %s", pan)
	} else if err != nil {
		ev.Violation(t, id, "roundtrip-mismatch", mk(b), "%v", err)
	}
	// independent reader
	d, derr := refcodec.Decode(b, refcodec.Options{Canonical: true})
	if derr != nil {
		ev.Violation(t, id, "refdecode-reject", mk(b), "independent decoder rejects writer output: %v", derr)
	}
	if !gen.Equal(d, eff, true) {
		ev.Violation(t, id, "refdecode-differs", mk(b), "independent decoder reads a different tree: %s", d.Render(600))
	}
	if !gen.Equal(eff, n, false) {
		ev.Violation(t, id, "harness-effective-tree", mk(b), "harness error: effective tree differs from planned tree")
	}
	return b, eff, x.Feats
}

func nontrivialC01(n *gen.Node, hit map[string]bool, feats map[string]bool) bool {
	if len(hit) > 0 || n.Depth() >= 3 {
		return true
	}
	for f := range feats {
		switch f {
		case "Copy", "Merge", "Field.Any(container)", "Field.Any(scalar)", "Field.Any(struct)", "List.Any(container)", "List.Any(scalar)", "List.Any(struct)":
			return true
		}
	}
	return false
}

func labelsC01(hit, feats map[string]bool) []string {
	var ls []string
	for h := range hit {
		ls = append(ls, "boundary:"+h)
	}
	for f := range feats {
		ls = append(ls, "api:"+f)
	}
	return ls
}

func TestC01_Random(t *testing.T) {
	ev.Rule(c01, "rapid: value trees over all 21 wire types with boundary knobs drawn first (tag sets around 255/256/65535, field/element counts {0,1,14,15,47..50,255,256,300}, one field/element ending at offset 65534..65537, payload lengths around 0xfc/0xfd/0xffff/0x10000, nesting depth 1..22), lowered to API calls with drawn styles (typed, WriteField, Any(pre-encoded), nested handles, Copy/Merge with decoy overlaps, 6 root constructors, buffers with pre-existing content); non-trivial = crosses >=1 boundary class or depth>=3 or uses Any/Copy/Merge; distinct by tree fingerprint + style set")
	ev.Check(t, c01, func(rt *rapid.T) {
		s := gen.RapidSrc{T: rt}
		big := rapid.IntRange(0, 5).Draw(rt, "bigpayload") == 0
		n, hit := gen.Tree(s, gen.Limits{MaxDepth: 4, MaxNodes: 40, BigPayload: big})
		seed := rapid.Uint64().Draw(rt, "absentseed")
		_, _, feats := roundTrip(rt, c01, s, n, seed)
		nt := nontrivialC01(n, hit, feats)
		ev.Case(c01, ev.Hash(n.Fingerprint(), fmt.Sprint(featList(feats))), nt, labelsC01(hit, feats)...)
		if ev.WantSample(c01) {
			ev.Sample(c01, c01case{Tree: n.Render(300), Feats: featList(feats)})
		}
	})
}

// TestC01_Sweep is the deterministic boundary sweep: one case on each side of every
// boundary, in each position, with several style seeds.
func TestC01_Sweep(t *testing.T) {
	if sh, _ := ev.Shard(); sh != 0 {
		t.Skip("deterministic; shard 0 only")
	}
	ev.Rule(c01, "boundary sweep: every listed count (fields, elements), payload length, offset target (65534..65537, message and list) and depth (1..22) built explicitly, each with 4 style seeds derived from VERIF_SEED")
	type item struct {
		class string
		param int
		flag  bool
	}
	var items []item
	for _, c := range gen.FieldCounts {
		items = append(items, item{"count", c, true})
	}
	for _, c := range gen.ElemCounts {
		items = append(items, item{"count", c, false})
	}
	for _, l := range gen.PayloadLens {
		items = append(items, item{"payload", l, true}, item{"payload", l, false})
	}
	for _, o := range gen.OffsetTargets {
		items = append(items, item{"offset", o, true}, item{"offset", o, false})
	}
	for d := 1; d <= 22; d++ {
		items = append(items, item{"deep", d, false})
	}
	reps := 4
	if ev.Thorough() {
		reps = 24
	}
	for i, it := range items {
		for rep := 0; rep < reps; rep++ {
			s := &gen.PRNG{S: ev.Seed()*1000003 + uint64(i)*131 + uint64(rep)}
			n, hit := gen.Class(s, it.class, it.param, it.flag)
			_, _, feats := roundTrip(t, c01, s, n, s.Uint64(""))
			ev.Case(c01, ev.Hash(n.Fingerprint(), fmt.Sprint(featList(feats))), true, labelsC01(hit, feats)...)
		}
	}
	// explicit tag-boundary cases: each boundary tag first / middle / last in write order
	for _, tag := range []uint16{0, 254, 255, 256, 257, 65534, 65535} {
		for pos := 0; pos < 3; pos++ {
			others := []uint16{7, 100}
			fields := []gen.Field{}
			oi := 0
			for p := 0; p < 3; p++ {
				if p == pos {
					fields = append(fields, gen.F(tag, gen.Int32(int32(tag))))
				} else {
					fields = append(fields, gen.F(others[oi], gen.String("x")))
					oi++
				}
			}
			n := gen.Message(fields...)
			s := &gen.PRNG{S: ev.Seed() + uint64(tag)*3 + uint64(pos)}
			_, _, feats := roundTrip(t, c01, s, n, 0)
			ev.Case(c01, ev.Hash(n.Fingerprint(), fmt.Sprint(featList(feats))), true, "boundary:tag-sweep")
		}
	}
	ev.Require(c01, "boundary:tag-sweep", "boundary:fields=48", "boundary:fields>=49", "boundary:fields=255", "boundary:fields>=256",
		"boundary:elems=48", "boundary:elems>=49", "boundary:elems=255", "boundary:elems>=256",
		"boundary:msg-offset=65535", "boundary:msg-offset=65536", "boundary:list-offset=65535", "boundary:list-offset=65536",
		"boundary:payload~0xfc", "boundary:payload>=0xfd", "boundary:payload~0xffff", "boundary:payload>=0x10000",
		"boundary:depth>=14", "boundary:tag=255", "boundary:tag=256", "boundary:tag=65535")
}

// alphabet for the bounded-exhaustive driver
func c01Alphabet() []*gen.Node {
	return []*gen.Node{
		gen.Bool(true), gen.Bool(false), gen.Byte(0), gen.Byte(255),
		gen.Int16(-32768), gen.Int16(126), gen.Int32(-1), gen.Int32(2147483647), gen.Int64(-9223372036854775808), gen.Int64(32767),
		gen.Uint16(0xfc), gen.Uint16(0xfd), gen.Uint32(0xffff), gen.Uint32(0x10000), gen.Uint64(0xffffffff), gen.Uint64(0x100000000),
		gen.Float32(0), {Kind: gen.KFloat32, U: 0x7f800000}, gen.Float64(-0.5), {Kind: gen.KFloat64, U: 0x7ff8000000000001},
		{Kind: gen.KBin64, B: gen.Expand(1, 3, 8)}, {Kind: gen.KBin128, B: gen.Expand(2, 3, 16)}, {Kind: gen.KBin256, B: gen.Expand(3, 3, 32)},
		gen.Bytes([]byte{}), gen.Bytes([]byte{0xfd}), gen.Bytes(gen.Expand(4, 2, 0xfd)),
		gen.String(""), gen.String("a\x00b"), gen.String(string(gen.Expand(5, 2, 0xfc))),
		{Kind: gen.KStruct}, {Kind: gen.KStruct, Elems: []*gen.Node{gen.Int32(7), gen.Bool(true)}},
	}
}

var c01Tags = []uint16{0, 1, 2, 254, 255, 256, 257, 65535}

func TestC01_Exhaustive(t *testing.T) {
	shard, shards := ev.Shard()
	ev.Rule(c01, "bounded-exhaustive: all trees with <=3 nodes over a 31-value boundary alphabet (all kinds) and 8 boundary tags {0,1,2,254,255,256,257,65535}: scalar roots, msg{t:a}, list[a], msg{t1:a,t2:b} in both write orders, list[a,b], and the four 3-node nestings, x every combination of per-node write styles (typed / WriteField / Any; nested handle / pre-encoded Any)")
	alpha := c01Alphabet()
	free := map[string]bool{"fieldstyle": true, "elemstyle": true, "fieldcontainer": true, "elemcontainer": true, "fieldstruct": true, "elemstruct": true}
	var count, idx int64
	run := func(n *gen.Node) {
		idx++
		if int(idx)%shards != shard {
			return
		}
		rot := uint64(idx)
		e := &EnumSrc{Free: free}
		e.NonFree = func(k int, label string) int {
			switch label {
			case "rootmsg", "rootlist", "rootval", "rootvalw":
				return int(rot % uint64(k))
			case "copysplit", "bufprefix", "hasfieldprobe", "lenprobe", "msglistwriter":
				return 1 // off (copy: 0 means on)
			}
			return 0
		}
		for {
			e.Reset()
			roundTrip(t, c01, e, n, rot)
			count++
			// style collapse: field/elem style has 6 draws of which 0,1 are special: skip duplicates 3..5
			if !nextStyle(e) {
				break
			}
		}
	}
	// 1 node
	for _, a := range alpha {
		run(a)
	}
	run(gen.Message())
	run(gen.List())
	leaves := append(append([]*gen.Node{}, alpha...), gen.Message(), gen.List())
	// 2 nodes
	for _, a := range leaves {
		run(gen.List(a))
		for _, tg := range c01Tags {
			run(gen.Message(gen.F(tg, a)))
		}
	}
	// 3 nodes: flat
	for _, a := range alpha {
		for _, b := range alpha {
			run(gen.List(a, b))
			for _, t1 := range c01Tags {
				for _, t2 := range c01Tags {
					if t1 != t2 {
						run(gen.Message(gen.F(t1, a), gen.F(t2, b)))
					}
				}
			}
		}
	}
	// 3 nodes: nested
	for _, a := range leaves {
		run(gen.List(gen.List(a)))
		for _, t1 := range c01Tags {
			run(gen.List(gen.Message(gen.F(t1, a))))
			run(gen.Message(gen.F(t1, gen.List(a))))
			for _, t2 := range c01Tags {
				run(gen.Message(gen.F(t1, gen.Message(gen.F(t2, a)))))
			}
		}
	}
	ev.CaseEnum(c01, count, count, "exhaustive<=3nodes")
	ev.Exhaustive(c01, fmt.Sprintf("trees <=3 nodes over boundary alphabet x write styles (shard %d/%d: %d programs)", shard, shards, count))
	ev.Sample(c01, c01case{Tree: gen.Message(gen.F(256, alpha[11]), gen.F(255, alpha[27])).Render(200), Feats: []string{"exhaustive driver: all style combinations"}})
}

// nextStyle advances the style vector but collapses equivalent values: for 6-ary style
// draws only 0 (WriteField), 1 (Any) and 2 (typed) are distinct behaviours; for 4-ary
// container draws 0 (Any) and 1 (nested); for 3-ary struct draws 0 (Any) and 1.
func nextStyle(e *EnumSrc) bool {
	e.Vec = e.Vec[:e.pos]
	e.Arity = e.Arity[:e.pos]
	eff := func(ar int) int {
		switch ar {
		case 6:
			return 3
		case 4, 3:
			return 2
		}
		return ar
	}
	for i := len(e.Vec) - 1; i >= 0; i-- {
		if e.Vec[i]+1 < eff(e.Arity[i]) {
			e.Vec[i]++
			e.Vec = e.Vec[:i+1]
			e.Arity = e.Arity[:i+1]
			return true
		}
	}
	return false
}

// TestC01_GenSelfTest cross-checks the generator's private size function and the
// reference codec against each other (harness consistency, not a property of the library).
func TestC01_GenSelfTest(t *testing.T) {
	s := &gen.PRNG{S: 42}
	for i := 0; i < 3000; i++ {
		n, _ := gen.Tree(s, gen.Limits{MaxDepth: 4, MaxNodes: 40, BigPayload: i%50 == 0})
		b := refcodec.Encode(nil, n)
		if len(b) != refcodec.Size(n) {
			t.Fatalf("refcodec.Size=%d len(Encode)=%d for %s", refcodec.Size(n), len(b), n.Render(200))
		}
		d, err := refcodec.Decode(b, refcodec.Options{Canonical: true})
		if err != nil || !gen.Equal(d, n, true) {
			t.Fatalf("refcodec self round trip failed: %v for %s", err, n.Render(200))
		}
	}
}
