// Package ltest is the runtime support for test drivers emitted into generated packages
// (C05, C16): schema descriptors, value generation as gen.Node trees, and comparison
// helpers. Emitted code only converts between gen.Node and the generated Go types.
package ltest

import (
	"fmt"

	"github.com/basecomplextech/baselibrary/bin"

	"verifharness/gen"
	"verifharness/refcodec"
)

// Kind of a declared field/element type.
type Kind int

const (
	KBuiltin Kind = iota // Builtin holds the gen kind
	KAny
	KAnyMessage
	KEnum
	KStruct
	KMessage
)

// Type describes a declared type.
type Type struct {
	Kind    Kind
	Builtin gen.Kind
	Ref     string // "pkgid.Name" key into the registry for enum/struct/message
	List    bool
}

type Field struct {
	Name string
	Tag  uint16
	Type Type
}

type Desc struct {
	Key    string // "pkgid.Name"
	Kind   Kind   // KEnum, KStruct, KMessage
	Fields []Field
	Values []int32 // enum numbers
}

// Registry holds descriptors of all packages linked into the test binary.
var Registry = map[string]*Desc{}

func Register(d *Desc) { Registry[d.Key] = d }

func B64(b []byte) bin.Bin64 {
	var a [8]byte
	copy(a[:], b)
	return bin.New64(a)
}
func B128(b []byte) bin.Bin128 {
	var a [16]byte
	copy(a[:], b)
	return bin.New128(a)
}
func B256(b []byte) bin.Bin256 {
	var a [32]byte
	copy(a[:], b)
	return bin.New256(a)
}
func Bin64Node(v bin.Bin64) *gen.Node {
	return &gen.Node{Kind: gen.KBin64, B: append([]byte(nil), v[:]...)}
}
func Bin128Node(v bin.Bin128) *gen.Node {
	b := append([]byte(nil), v[0][:]...)
	b = append(b, v[1][:]...)
	return &gen.Node{Kind: gen.KBin128, B: b}
}
func Bin256Node(v bin.Bin256) *gen.Node {
	var b []byte
	for i := 0; i < 4; i++ {
		b = append(b, v[i][:]...)
	}
	return &gen.Node{Kind: gen.KBin256, B: b}
}

// GenValue draws a value of the declared type.
func GenValue(s gen.Src, t Type, depth int) *gen.Node {
	if t.List {
		n := s.Intn(5, "listlen")
		if depth <= 0 {
			n = s.Intn(2, "listlen0")
		}
		l := &gen.Node{Kind: gen.KList}
		et := t
		et.List = false
		for i := 0; i < n; i++ {
			l.Elems = append(l.Elems, GenValue(s, et, depth-1))
		}
		return l
	}
	switch t.Kind {
	case KBuiltin:
		return gen.Scalar(s, int(t.Builtin))
	case KAny:
		n, _ := gen.Tree(s, gen.Limits{MaxDepth: 2, MaxNodes: 6})
		return n
	case KAnyMessage:
		m := &gen.Node{Kind: gen.KMessage}
		k := s.Intn(3, "anymsgfields")
		for i := 0; i < k; i++ {
			m.Fields = append(m.Fields, gen.F(uint16(1+i*300), gen.Scalar(s, -1)))
		}
		return m
	case KEnum:
		d := Registry[t.Ref]
		if d != nil && len(d.Values) > 0 && s.Intn(4, "enumdeclared") != 0 {
			return gen.Int32(d.Values[s.Intn(len(d.Values), "enumval")])
		}
		return gen.Int32(int32(s.Uint64("enumraw")))
	case KStruct:
		return GenStruct(s, Registry[t.Ref], depth)
	case KMessage:
		return GenMessage(s, Registry[t.Ref], depth-1)
	}
	panic(fmt.Sprintf("ltest: kind %v", t.Kind))
}

// GenStruct draws a struct value: all members in declaration order.
func GenStruct(s gen.Src, d *Desc, depth int) *gen.Node {
	n := &gen.Node{Kind: gen.KStruct}
	for _, f := range d.Fields {
		n.Elems = append(n.Elems, GenValue(s, f.Type, depth))
	}
	return n
}

// GenMessage draws a message value: each declared field present with probability 2/3,
// in declaration order (the order the emitted writer uses).
func GenMessage(s gen.Src, d *Desc, depth int) *gen.Node {
	m := &gen.Node{Kind: gen.KMessage}
	for _, f := range d.Fields {
		if depth < 0 && (f.Type.Kind == KMessage) {
			continue // bound recursion
		}
		if s.Intn(3, "present") == 0 {
			continue
		}
		m.Fields = append(m.Fields, gen.F(f.Tag, GenValue(s, f.Type, depth)))
	}
	return m
}

// Field returns the value of tag in a message node, or nil.
func FieldOf(n *gen.Node, tag uint16) *gen.Node {
	for _, f := range n.Fields {
		if f.Tag == tag {
			return f.V
		}
	}
	return nil
}

// DecodeAny decodes raw bytes of an any/message field into a node (nil on error).
func DecodeAny(raw []byte) *gen.Node {
	n, err := refcodec.Decode(append([]byte(nil), raw...), refcodec.Options{})
	if err != nil {
		return &gen.Node{Kind: gen.KBytes, B: []byte("undecodable: " + err.Error())}
	}
	return n
}

// EncodeNode encodes a node with the reference encoder.
func EncodeNode(n *gen.Node) []byte { return refcodec.Encode(nil, n) }

// StructFlat flattens nested struct members the way the wire lays them out: a nested
// struct is a complete struct value inside the parent's body, so no flattening is
// needed; this helper exists for symmetry and returns n unchanged.
func StructFlat(n *gen.Node) *gen.Node { return n }

// canon canonicalises NaN payloads (the decoders may quiet signalling NaNs) for comparison.
func canon(n *gen.Node) *gen.Node {
	if n == nil {
		return nil
	}
	c := *n
	switch n.Kind {
	case gen.KFloat32:
		if u := uint32(n.U); u&0x7f800000 == 0x7f800000 && u&0x007fffff != 0 {
			c.U = 0x7fc00000
		}
	case gen.KFloat64:
		if n.U&0x7ff0000000000000 == 0x7ff0000000000000 && n.U&0x000fffffffffffff != 0 {
			c.U = 0x7ff8000000000000
		}
	}
	c.Elems = nil
	for _, e := range n.Elems {
		c.Elems = append(c.Elems, canon(e))
	}
	c.Fields = nil
	for _, f := range n.Fields {
		c.Fields = append(c.Fields, gen.F(f.Tag, canon(f.V)))
	}
	return &c
}

func eq(a, b *gen.Node) bool { return gen.Equal(canon(a), canon(b), false) }

// CheckMessage applies the C05 message oracle. want = generated value; b = bytes from the
// generated writer; viaGenerated = what the generated reader returns for b; viaDynamic =
// what the generated reader returns for the reference encoding of want.
func CheckMessage(key string, want *gen.Node, b []byte, viaGenerated, viaDynamic *gen.Node) string {
	if !eq(viaGenerated, want) {
		return fmt.Sprintf("key=writer-reader-roundtrip msg=%s: generated writer then generated reader: wrote %s, read %s", key, want.Render(500), viaGenerated.Render(500))
	}
	// interchangeability 1: the bytes carry exactly the declared tags and wire types
	dec, err := refcodec.Decode(append([]byte(nil), b...), refcodec.Options{Canonical: true})
	if err != nil {
		return fmt.Sprintf("key=generated-bytes-malformed msg=%s: independent decoder rejects the generated writer's bytes: %v (value %s)", key, err, want.Render(400))
	}
	if !gen.Equal(dec, want, false) {
		return fmt.Sprintf("key=wrong-tag-or-wire-type msg=%s: bytes from the generated writer read by tag through the independent decoder give %s, the schema-declared value is %s", key, dec.Render(500), want.Render(500))
	}
	ref := refcodec.Encode(nil, want)
	if string(ref) != string(b) {
		return fmt.Sprintf("key=generated-bytes-differ msg=%s: generated writer bytes differ from the dynamic/reference encoding of the same fields (%d vs %d bytes)", key, len(b), len(ref))
	}
	// interchangeability 2: bytes written by tag are read by the generated accessors
	if !eq(viaDynamic, want) {
		return fmt.Sprintf("key=dynamic-bytes-misread msg=%s: bytes written by tag with the declared wire types are read by the generated accessors as %s, want %s", key, viaDynamic.Render(500), want.Render(500))
	}
	return ""
}

// CheckStruct applies the struct encode/decode inverse oracle.
func CheckStruct(key string, want *gen.Node, b []byte, encSize, decSize int, decErr error, back, viaDynamic *gen.Node) string {
	if decErr != nil {
		return fmt.Sprintf("key=struct-decode-error msg=%s: Decode(Encode(v)) failed: %v (value %s)", key, decErr, want.Render(300))
	}
	if encSize != len(b) || decSize != len(b) {
		return fmt.Sprintf("key=struct-size msg=%s: encoder reported %d, decoder %d, %d bytes appended", key, encSize, decSize, len(b))
	}
	if !eq(back, want) {
		return fmt.Sprintf("key=struct-roundtrip msg=%s: Decode(Encode(v)) = %s, v = %s", key, back.Render(300), want.Render(300))
	}
	ref := refcodec.Encode(nil, want)
	if string(ref) != string(b) {
		return fmt.Sprintf("key=struct-bytes-differ msg=%s: generated struct encoding differs from the declared layout (%x vs %x)", key, b, ref)
	}
	if !eq(viaDynamic, want) {
		return fmt.Sprintf("key=struct-dynamic-misread msg=%s: reference-encoded struct decodes as %s, want %s", key, viaDynamic.Render(300), want.Render(300))
	}
	return ""
}

// Project maps a value of one schema version onto another version of the same message:
// fields whose tag the target version does not declare are dropped, nested messages and
// lists of messages are projected recursively by the target's declared types.
func Project(n *gen.Node, targetKey string) *gen.Node {
	d := Registry[targetKey]
	if d == nil || n == nil || n.Kind != gen.KMessage {
		return n
	}
	byTag := map[uint16]Field{}
	for _, f := range d.Fields {
		byTag[f.Tag] = f
	}
	out := &gen.Node{Kind: gen.KMessage}
	for _, f := range n.Fields {
		tf, ok := byTag[f.Tag]
		if !ok {
			continue
		}
		v := f.V
		if tf.Type.Kind == KMessage {
			if tf.Type.List && v.Kind == gen.KList {
				l := &gen.Node{Kind: gen.KList}
				for _, e := range v.Elems {
					l.Elems = append(l.Elems, Project(e, tf.Type.Ref))
				}
				v = l
			} else {
				v = Project(v, tf.Type.Ref)
			}
		}
		out.Fields = append(out.Fields, gen.F(f.Tag, v))
	}
	return out
}

// Eq compares two value trees up to NaN quieting and field order.
func Eq(a, b *gen.Node) bool { return eq(a, b) }

// Overlay returns base with the fields of over replacing / extending it (over wins).
func Overlay(base, over *gen.Node) *gen.Node {
	out := &gen.Node{Kind: gen.KMessage}
	seen := map[uint16]bool{}
	for _, f := range over.Fields {
		out.Fields = append(out.Fields, f)
		seen[f.Tag] = true
	}
	for _, f := range base.Fields {
		if !seen[f.Tag] {
			out.Fields = append(out.Fields, f)
		}
	}
	return out
}
