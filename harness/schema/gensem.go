package schema

import (
	"fmt"
	"strconv"
	"strings"

	"verifharness/gen"
)

// Package is one schema package (a directory).
type Package struct {
	ID     string // import id = directory name relative to the module root
	GoPath string // go_package
	Files  []*File
}

// Set is a group of packages; later packages may import earlier ones.
type Set struct {
	Module string
	Pkgs   []*Package
}

// Camel maps a schema name to the Go identifier the generator derives from it.
func Camel(name string) string {
	parts := strings.Split(name, "_")
	var sb strings.Builder
	for _, p := range parts {
		if p == "" {
			continue
		}
		p = strings.ToLower(p)
		sb.WriteString(strings.ToUpper(p[:1]) + p[1:])
	}
	return sb.String()
}

var reservedMethods = map[string]bool{"Clone": true, "CloneToArena": true, "CloneToBuffer": true, "IsEmpty": true, "Unwrap": true, "Merge": true, "End": true, "Build": true,
	"String": false, "Decode": true, "EncodeTo": true}

type semGen struct {
	s   gen.Src
	seq int
	// Feature usage for labels.
	Feats map[string]bool
}

func (g *semGen) fieldNames(n int, structFields bool) []string {
	var out []string
	seen := map[string]bool{}
	for len(out) < n {
		var name string
		switch g.s.Intn(6, "fname") {
		case 0:
			name = ContextualKeywords[g.s.Intn(len(ContextualKeywords), "fkw")]
			g.Feats["keyword-name"] = true
		case 1:
			name = fmt.Sprintf("f_%c%d", 'a'+byte(g.s.Intn(26, "fl")), g.s.Intn(50, "fd"))
		case 2:
			name = fmt.Sprintf("%c%c_x", 'a'+byte(g.s.Intn(26, "fl")), 'a'+byte(g.s.Intn(26, "fl2")))
		default:
			name = fmt.Sprintf("%c%c%d", 'a'+byte(g.s.Intn(26, "fl")), 'a'+byte(g.s.Intn(26, "fl2")), g.s.Intn(10, "fd"))
		}
		c := Camel(name)
		if seen[c] || reservedMethods[c] || strings.HasPrefix(c, "Has") || strings.HasPrefix(c, "Copy") || c == "" {
			continue
		}
		if structFields && (c == "Decode" || c == "EncodeTo") {
			continue
		}
		seen[c] = true
		out = append(out, name)
	}
	return out
}

func (g *semGen) tags(n int) []int {
	seen := map[int]bool{}
	var out []int
	mode := g.s.Intn(4, "tagmode")
	for len(out) < n {
		var t int
		switch mode {
		case 0:
			t = 1 + g.s.Intn(n+5, "tag")
		case 1:
			t = []int{1, 2, 254, 255, 256, 257, 1000, 65534, 65535}[g.s.Intn(9, "tagedge")]
			g.Feats["tag>255"] = true
		default:
			t = 1 + g.s.Intn(65535, "tag")
		}
		if t > 255 {
			g.Feats["tag>255"] = true
		}
		if seen[t] {
			continue
		}
		seen[t] = true
		out = append(out, t)
	}
	return out
}

type avail struct {
	enums, structs, messages []Type // referencable types (with Pkg alias for imported)
}

func (g *semGen) valueType(av avail, allowStructs bool) Type {
	switch g.s.Intn(8, "vtype") {
	case 0:
		if len(av.enums) > 0 {
			g.Feats["enum"] = true
			return av.enums[g.s.Intn(len(av.enums), "enumref")]
		}
	case 1:
		if allowStructs && len(av.structs) > 0 {
			g.Feats["struct"] = true
			return av.structs[g.s.Intn(len(av.structs), "structref")]
		}
	}
	return Type{Name: Builtins[g.s.Intn(len(Builtins), "builtin")]}
}

func (g *semGen) fieldType(av avail) Type {
	var t Type
	switch g.s.Intn(10, "ftype") {
	case 0:
		t = Type{Name: "any"}
	case 1:
		t = Type{Name: "message"}
	case 2, 3:
		if len(av.messages) > 0 {
			t = av.messages[g.s.Intn(len(av.messages), "msgref")]
		} else {
			t = g.valueType(av, true)
		}
	default:
		t = g.valueType(av, true)
	}
	if g.s.Intn(4, "list") == 0 && t.Name != "any" && t.Name != "message" {
		t.List = true
		g.Feats["list"] = true
	}
	if t.Pkg != "" {
		g.Feats["import"] = true
	}
	return t
}

// GenSet draws a valid schema set under the Go-name hygiene precondition.
func GenSet(s gen.Src, module string) (*Set, map[string]bool) {
	return GenSetN(s, module, 0)
}

// GenSetN is GenSet with a fixed number of packages (0 = drawn 1..3).
func GenSetN(s gen.Src, module string, npkgs int) (*Set, map[string]bool) {
	g := &semGen{s: s, Feats: map[string]bool{}}
	set := &Set{Module: module}
	np := npkgs
	if np <= 0 {
		np = 1 + s.Intn(3, "npkgs")
	}
	type exported struct {
		pkg                      *Package
		enums, structs, messages []string
	}
	var prev []exported
	for pi := 0; pi < np; pi++ {
		id := fmt.Sprintf("p%c%d", 'a'+byte(pi), s.Intn(9, "pkgn"))
		pkg := &Package{ID: id, GoPath: module + "/" + id}
		nf := 1 + s.Intn(2, "nfiles")
		files := make([]*File, nf)
		for i := range files {
			files[i] = &File{Name: fmt.Sprintf("f%d.spec", i)}
		}
		files[0].Options = []Option{{Name: "go_package", Value: pkg.GoPath}}
		// imports (same in every file that needs them; simpler: all files import the chosen packages)
		var av avail
		ownAlias := false
		var collide []string // names of types imported under the package's own name
		for _, ex := range prev {
			if s.Intn(2, "doimport") == 0 {
				continue
			}
			alias := ""
			ref := ex.pkg.ID
			if s.Intn(2, "alias") == 0 {
				alias = fmt.Sprintf("x%s", ex.pkg.ID)
				if !ownAlias && s.Intn(2, "ownalias") == 0 {
					// the import is named like the importing package itself: qualified references
					// still mean the import, also when a local definition has the same name
					alias, ownAlias = id, true
					g.Feats["import-alias-equals-own-package-name"] = true
				}
				ref = alias
				g.Feats["import-alias"] = true
			}
			if alias == id {
				collide = append(collide, ex.enums...)
				collide = append(collide, ex.structs...)
				collide = append(collide, ex.messages...)
			}
			for _, f := range files {
				f.Imports = append(f.Imports, Import{Alias: alias, ID: ex.pkg.ID})
			}
			for _, n := range ex.enums {
				av.enums = append(av.enums, Type{Pkg: ref, Name: n})
			}
			for _, n := range ex.structs {
				av.structs = append(av.structs, Type{Pkg: ref, Name: n})
			}
			for _, n := range ex.messages {
				av.messages = append(av.messages, Type{Pkg: ref, Name: n})
			}
		}
		ex := exported{pkg: pkg}
		file := func() *File { return files[s.Intn(len(files), "file")] }
		name := func(prefix string) string {
			if len(collide) > 0 && s.Intn(2, "collide") == 0 {
				// a local definition named like a type of that import (of any kind)
				k := s.Intn(len(collide), "collidewith")
				n := collide[k]
				collide = append(collide[:k], collide[k+1:]...)
				g.Feats["local-name-equals-name-imported-under-own-package-name"] = true
				return n
			}
			g.seq++
			return fmt.Sprintf("%s%d%c", prefix, g.seq, 'A'+byte(s.Intn(26, "defsuffix")))
		}
		// enums
		for i, ne := 0, s.Intn(3, "nenums"); i < ne; i++ {
			d := &Def{Kind: DefEnum, Name: name("En")}
			nv := 1 + s.Intn(5, "nvalues")
			names := g.fieldNames(nv, false)
			seen := map[int64]bool{0: true}
			d.Values = append(d.Values, EnumValue{Name: names[0], Value: "0"})
			for k := 1; k < nv; k++ {
				var v int64
				for {
					v = int64(s.Intn(1000, "enumval"))
					if s.Intn(5, "enumbig") == 0 {
						v = []int64{2147483647, 65536, 255, 256}[s.Intn(4, "enumedge")]
					}
					if !seen[v] {
						break
					}
				}
				seen[v] = true
				d.Values = append(d.Values, EnumValue{Name: names[k], Value: strconv.FormatInt(v, 10)})
			}
			ef := file()
			ef.Defs = append(ef.Defs, d)
			ex.enums = append(ex.enums, d.Name)
			av.enums = append(av.enums, Type{Name: d.Name})
		}
		// structs (acyclic: only earlier structs)
		for i, ns := 0, s.Intn(3, "nstructs"); i < ns; i++ {
			d := &Def{Kind: DefStruct, Name: name("St")}
			nf := 1 + s.Intn(5, "nsfields")
			for _, fn := range g.fieldNames(nf, true) {
				d.Fields = append(d.Fields, Field{Name: fn, Type: g.valueType(av, true)})
			}
			f := file()
			f.Defs = append(f.Defs, d)
			ex.structs = append(ex.structs, d.Name)
			av.structs = append(av.structs, Type{Name: d.Name})
		}
		// messages: names first so that they can reference each other (recursion is legal)
		nm := 1 + s.Intn(4, "nmsgs")
		var mdefs []*Def
		for i := 0; i < nm; i++ {
			d := &Def{Kind: DefMessage, Name: name("Msg")}
			mdefs = append(mdefs, d)
			av.messages = append(av.messages, Type{Name: d.Name})
			ex.messages = append(ex.messages, d.Name)
		}
		for _, d := range mdefs {
			nf := s.Intn(9, "nmfields")
			names := g.fieldNames(nf, false)
			tags := g.tags(nf)
			for k := 0; k < nf; k++ {
				d.Fields = append(d.Fields, Field{Name: names[k], Type: g.fieldType(av), Tag: strconv.Itoa(tags[k])})
			}
			f := file()
			f.Defs = append(f.Defs, d)
		}
		// services
		if s.Intn(2, "hassvc") == 0 {
			g.Feats["service"] = true
			var sub *Def
			if s.Intn(2, "hassub") == 0 {
				sub = &Def{Kind: DefSubservice, Name: name("Sub")}
				sub.Methods = g.methods(av, nil, 1+s.Intn(2, "nsubm"))
				sf := file()
				sf.Defs = append(sf.Defs, sub)
			}
			svc := &Def{Kind: DefService, Name: name("Svc")}
			svc.Methods = g.methods(av, sub, 1+s.Intn(4, "nm"))
			vf := file()
			vf.Defs = append(vf.Defs, svc)
		}
		// a file whose import is referenced at exactly one position (each kind of position in isolation:
		// the generator decides per file whether an import is used)
		var singles []*File
		usedPos := map[int]bool{}
		for k := 0; k < 2 && len(prev) > 0; k++ {
			if s.Intn(4, "singleuse") == 0 {
				continue
			}
			var single *File
			ex0 := prev[s.Intn(len(prev), "singleuse-pkg")]
			if len(ex0.messages) > 0 {
				alias, ref := "", ex0.pkg.ID
				if s.Intn(2, "singleuse-alias") == 0 {
					alias = "y" + ex0.pkg.ID
					ref = alias
				}
				ext := Type{Pkg: ref, Name: ex0.messages[s.Intn(len(ex0.messages), "singleuse-msg")]}
				single = &File{Name: fmt.Sprintf("f%d.spec", 8+k), Imports: []Import{{Alias: alias, ID: ex0.pkg.ID}}}
				local := &Def{Kind: DefMessage, Name: name("Msg"), Fields: []Field{{Name: "id", Type: Type{Name: "int64"}, Tag: "1"}}}
				lt := Type{Name: local.Name}
				svc := &Def{Kind: DefService, Name: name("Svc")}
				m := Method{Name: "zsingle"}
				pos := s.Intn(7, "singleuse-pos")
				if usedPos[pos] {
					pos = (pos + 1 + s.Intn(6, "singleuse-pos2")) % 7
				}
				usedPos[pos] = true
				switch pos {
				case 0:
					m.ChanOut = &ext
				case 1:
					m.ChanIn = &ext
				case 2:
					m.ChanIn, m.ChanOut = &lt, &ext
					m.HasOutput, m.OutputType = true, &lt
				case 3:
					m.InputType = &ext
				case 4:
					m.HasOutput, m.OutputType = true, &ext
				case 5:
					m.InputFields = []Field{{Name: "arg", Type: ext, Tag: "1"}}
				default:
					m.HasOutput, m.OutputFields = true, []Field{{Name: "res", Type: Type{List: true, Pkg: ext.Pkg, Name: ext.Name}, Tag: "2"}}
				}
				svc.Methods = []Method{m}
				single.Defs = []*Def{local, svc}
				ex.messages = append(ex.messages, local.Name)
				g.Feats["import-used-at-one-position"] = true
				g.Feats[fmt.Sprintf("single-use-position=%d", pos)] = true
				singles = append(singles, single)
			}
		}
		for _, f := range files {
			if len(f.Defs) > 0 || len(f.Options) > 0 {
				pkg.Files = append(pkg.Files, f)
			}
		}
		pkg.Files = append(pkg.Files, singles...)
		set.Pkgs = append(set.Pkgs, pkg)
		prev = append(prev, ex)
	}
	return set, g.Feats
}

func (g *semGen) methods(av avail, sub *Def, n int) []Method {
	var out []Method
	names := g.fieldNames(n, false)
	msgType := func() *Type {
		t := av.messages[g.s.Intn(len(av.messages), "mmsg")]
		return &t
	}
	inlineFields := func() []Field {
		k := g.s.Intn(4, "ninline")
		fn := g.fieldNames(k, false)
		tg := g.tags(k)
		var fs []Field
		for i := 0; i < k; i++ {
			fs = append(fs, Field{Name: fn[i], Type: g.fieldType(av), Tag: strconv.Itoa(tg[i])})
		}
		return fs
	}
	for i := 0; i < n; i++ {
		m := Method{Name: names[i]}
		if g.s.Intn(2, "inkind") == 0 {
			m.InputType = msgType()
		} else {
			m.InputFields = inlineFields()
		}
		switch g.s.Intn(6, "shape") {
		case 0:
			m.Oneway = true
		case 1: // no output
		case 2:
			m.HasOutput = true
			if g.s.Intn(2, "outkind") == 0 {
				m.OutputType = msgType()
			} else {
				m.OutputFields = inlineFields()
				if len(m.OutputFields) == 0 {
					m.OutputType = msgType()
				}
			}
		case 3:
			if sub != nil {
				m.HasOutput = true
				m.OutputType = &Type{Name: sub.Name}
				break
			}
			fallthrough
		default:
			dir := g.s.Intn(3, "chandir")
			if dir != 1 {
				m.ChanIn = msgType()
			}
			if dir != 0 {
				m.ChanOut = msgType()
			}
			if g.s.Intn(2, "chanresp") == 0 {
				m.HasOutput = true
				m.OutputType = msgType()
			}
		}
		out = append(out, m)
	}
	return out
}
