package codec

// C16 (dynamic layer) — messages stay readable across schema evolution.

import (
	"bytes"
	"fmt"
	"runtime/debug"
	"sort"
	"testing"

	spec "github.com/basecomplextech/spec"
	"pgregory.net/rapid"

	"verifharness/ev"
	"verifharness/gen"
	"verifharness/prog"
	"verifharness/refcodec"
)

const c16 = "C16"

type c16case struct {
	Written  string   `json:"message_written_under_A"`
	Edits    []string `json:"edits_A_to_A2"`
	Prewrite string   `json:"fields_prewritten_by_A2_writer,omitempty"`
}

// zeroCheck reads an absent tag through the accessor of the kind the reader's schema declares.
func zeroCheck(m spec.Message, tag uint16, k gen.Kind) error {
	if m.HasField(tag) {
		return fmt.Errorf("HasField(%d) true for a field absent from the data", tag)
	}
	bad := func() error { return fmt.Errorf("absent field %d read as %v is not the zero value", tag, k) }
	switch k {
	case gen.KBool:
		if v, err := m.BoolErr(tag); v || err != nil {
			return bad()
		}
	case gen.KByte:
		if v, err := m.ByteErr(tag); v != 0 || err != nil {
			return bad()
		}
	case gen.KInt16:
		if v, err := m.Int16Err(tag); v != 0 || err != nil {
			return bad()
		}
	case gen.KInt32:
		if v, err := m.Int32Err(tag); v != 0 || err != nil {
			return bad()
		}
	case gen.KInt64:
		if v, err := m.Int64Err(tag); v != 0 || err != nil {
			return bad()
		}
	case gen.KUint16:
		if v, err := m.Uint16Err(tag); v != 0 || err != nil {
			return bad()
		}
	case gen.KUint32:
		if v, err := m.Uint32Err(tag); v != 0 || err != nil {
			return bad()
		}
	case gen.KUint64:
		if v, err := m.Uint64Err(tag); v != 0 || err != nil {
			return bad()
		}
	case gen.KFloat32:
		if v, err := m.Float32Err(tag); v != 0 || err != nil {
			return bad()
		}
	case gen.KFloat64:
		if v, err := m.Float64Err(tag); v != 0 || err != nil {
			return bad()
		}
	case gen.KBin64:
		if v, err := m.Bin64Err(tag); !v.IsZero() || err != nil {
			return bad()
		}
	case gen.KBin128:
		if v, err := m.Bin128Err(tag); !v.IsZero() || err != nil {
			return bad()
		}
	case gen.KBin256:
		if v, err := m.Bin256Err(tag); !v.IsZero() || err != nil {
			return bad()
		}
	case gen.KBytes:
		if v, err := m.BytesErr(tag); len(v) != 0 || err != nil {
			return bad()
		}
	case gen.KString:
		if v, err := m.StringErr(tag); len(v) != 0 || err != nil {
			return bad()
		}
	case gen.KList:
		if v, err := m.ListErr(tag); v.Len() != 0 || err != nil {
			return bad()
		}
	case gen.KMessage:
		if v, err := m.MessageErr(tag); v.Fields() != 0 || err != nil {
			return bad()
		}
	case gen.KStruct:
		if ds, sz, err := spec.DecodeStruct(m.FieldRaw(tag)); ds != 0 || sz != 0 || err != nil {
			return bad()
		}
	}
	return nil
}

func TestC16_Dynamic(t *testing.T) {
	ev.Rule(c16, "dynamic layer: a message written under field set A (C01 generator, any order) is read under A' derived by a drawn edit sequence {add, remove, rename (no wire effect), reorder}: common tags equal, A-only tags ignored, A'-only tags read as the declared kind's zero with HasField=false; then an A'-writer pre-writes A'-only and overriding common fields and Merges/Copies the A message: pre-written fields win, every other A field (known to A' or not) is preserved byte-for-byte, result parses completely; non-trivial = >=1 add and >=1 remove and the value sets a removed field; distinct by (message, edits) hash")
	ev.Check(t, c16, func(rt *rapid.T) {
		s := gen.RapidSrc{T: rt}
		// A: a message tree
		var a *gen.Node
		for {
			n, _ := gen.Tree(s, gen.Limits{MaxDepth: 3, MaxNodes: 24})
			if n.Kind == gen.KMessage {
				a = n
				break
			}
			a = gen.Message(gen.F(uint16(rapid.IntRange(0, 300).Draw(rt, "wraptag")), n))
			break
		}
		// one case in eight carries a payload beyond the 16-bit offset range under a small tag that the
		// reader's version does not know, next to a field the merging writer writes itself: whatever order
		// the two are written in, the merged table needs the big form
		bigTag, hasBig := uint16(0), false
		if rapid.IntRange(0, 7).Draw(rt, "bigfield") == 0 {
			bigTag = uint16(rapid.IntRange(0, 40).Draw(rt, "bigtag"))
			free := true
			for _, f := range a.Fields {
				if f.Tag == bigTag || f.Tag == bigTag+1 {
					free = false
				}
			}
			if free {
				big := make([]byte, 65000+rapid.IntRange(0, 6000).Draw(rt, "bigsize"))
				for i := range big {
					big[i] = byte(i * 7)
				}
				a.Fields = append(a.Fields, gen.Field{Tag: bigTag, V: gen.Bytes(big)})
				hasBig = true
			}
		}
		x := prog.NewExec(s)
		raw, _, err, pan := safeBuild(x, a)
		if err != nil || pan != "" {
			ev.Violation(rt, c16, "write-failed", c16case{Written: a.Render(300)}, "writing the A message failed: %v %s", err, pan)
		}
		inA := map[uint16]*gen.Node{}
		for _, f := range a.Fields {
			inA[f.Tag] = f.V
		}
		// A': reader view = tag -> declared kind
		view := map[uint16]gen.Kind{}
		for _, f := range a.Fields {
			view[f.Tag] = f.V.Kind
		}
		var edits []string
		adds, removes := 0, 0
		ne := rapid.IntRange(0, 6).Draw(rt, "nedits")
		for i := 0; i < ne; i++ {
			switch rapid.IntRange(0, 3).Draw(rt, "edit") {
			case 0: // add
				tag := uint16(rapid.IntRange(0, 65535).Draw(rt, "addtag"))
				if rapid.Bool().Draw(rt, "addnear") && len(a.Fields) > 0 {
					tag = a.Fields[rapid.IntRange(0, len(a.Fields)-1).Draw(rt, "nearidx")].Tag + uint16(rapid.IntRange(1, 2).Draw(rt, "neard"))
				}
				if _, ok := view[tag]; ok {
					continue
				}
				if _, ok := inA[tag]; ok {
					continue // a removed tag must not be reused with another meaning
				}
				k := gen.Kind(rapid.IntRange(0, int(gen.KMessage)).Draw(rt, "addkind"))
				view[tag] = k
				adds++
				edits = append(edits, fmt.Sprintf("add %d %v", tag, k))
			case 1: // remove
				if len(a.Fields) == 0 {
					continue
				}
				tag := a.Fields[rapid.IntRange(0, len(a.Fields)-1).Draw(rt, "rmidx")].Tag
				if _, ok := view[tag]; ok {
					delete(view, tag)
					removes++
					edits = append(edits, fmt.Sprintf("remove %d", tag))
				}
			case 2:
				edits = append(edits, "rename (no wire effect)")
			default:
				edits = append(edits, "reorder declarations (no wire effect)")
			}
		}
		if hasBig {
			// the reader's version drops the big field and adds its neighbour
			if _, ok := view[bigTag]; ok {
				delete(view, bigTag)
				removes++
				edits = append(edits, fmt.Sprintf("remove %d", bigTag))
			}
			if _, ok := view[bigTag+1]; !ok {
				view[bigTag+1] = gen.KInt32
				adds++
				edits = append(edits, fmt.Sprintf("add %d int32", bigTag+1))
			}
		}
		kase := c16case{Written: a.Render(300), Edits: edits}
		// ---- read under A' ----
		m, sz, perr := spec.ParseMessage(raw)
		if perr != nil || sz != len(raw) {
			ev.Violation(rt, c16, "parse-failed", kase, "ParseMessage: %v n=%d", perr, sz)
		}
		r := &prog.Reader{NoClone: true}
		tags := make([]int, 0, len(view))
		for tag := range view {
			tags = append(tags, int(tag))
		}
		sort.Ints(tags)
		setRemoved := false
		for _, f := range a.Fields {
			if _, ok := view[f.Tag]; !ok {
				setRemoved = true
			}
		}
		for _, ti := range tags {
			tag := uint16(ti)
			if v, ok := inA[tag]; ok {
				fv := m.Field(tag)
				if fv == nil {
					ev.Violation(rt, c16, "common-field-lost", kase, "field %d common to both versions reads as absent", tag)
				}
				if err := r.CheckRoot(v, fv); err != nil {
					ev.Violation(rt, c16, "common-field-changed", kase, "field %d common to both versions: %v", tag, err)
				}
				if err := prog.CheckTyped(r, m, tag, v); err != nil {
					ev.Violation(rt, c16, "common-field-changed", kase, "field %d via typed accessor: %v", tag, err)
				}
			} else if err := zeroCheck(m, tag, view[tag]); err != nil {
				ev.Violation(rt, c16, "absent-not-zero", kase, "%v", err)
			}
		}
		// ---- merge through an A' writer ----
		pre := &gen.Node{Kind: gen.KMessage}
		preTags := map[uint16]bool{}
		for _, ti := range tags {
			tag := uint16(ti)
			_, common := inA[tag]
			p := 3
			if common {
				p = 6 // overriding a common field is rarer
			}
			if rapid.IntRange(0, p).Draw(rt, "prewrite") == 0 || (hasBig && tag == bigTag+1) {
				k := view[tag]
				var v *gen.Node
				switch {
				case k == gen.KMessage:
					v = gen.Message(gen.F(1, gen.Int32(int32(tag))))
				case k == gen.KList:
					v = gen.List(gen.Uint16(tag))
				case k == gen.KStruct:
					v = gen.Struct(s)
				default:
					v = gen.Scalar(s, int(k))
				}
				pre.Fields = append(pre.Fields, gen.Field{Tag: tag, V: v})
				preTags[tag] = true
			}
		}
		kase.Prewrite = pre.Render(200)
		w := spec.NewWriter()
		mw := w.Message()
		x2 := prog.NewExec(s)
		x2.NoRaw = true
		var merged []byte
		merr, mpan := func() (err error, pan string) {
			defer func() {
				if rec := recover(); rec != nil {
					if fromRapid(debug.Stack()) {
						panic(rec) // rapid's own control flow (e.g. bit stream exhausted while shrinking)
					}
					pan = fmt.Sprint(rec)
				}
			}()
			if _, err = x2.FillOnly(mw, pre); err != nil {
				return
			}
			if rapid.Bool().Draw(rt, "merge") {
				err = mw.Merge(m)
			} else {
				err = mw.Copy(m)
			}
			if err != nil {
				return
			}
			var b []byte
			b, err = mw.Build()
			merged = append([]byte(nil), b...)
			return
		}()
		w.Free()
		if merr != nil || mpan != "" {
			ev.Violation(rt, c16, "merge-failed", kase, "merging the A message through an A' writer failed: %v %s", merr, mpan)
		}
		want := &gen.Node{Kind: gen.KMessage}
		want.Fields = append(want.Fields, pre.Fields...)
		for _, f := range a.Fields {
			if !preTags[f.Tag] {
				want.Fields = append(want.Fields, f)
			}
		}
		rr := &prog.Reader{NoClone: true}
		if err := rr.CheckRoot(want, merged); err != nil {
			ev.Violation(rt, c16, "merge-result-wrong", kase, "merged message: %v", err)
		}
		mm := spec.OpenMessage(merged)
		for _, f := range a.Fields {
			if preTags[f.Tag] {
				continue
			}
			if !bytes.Equal(mm.Field(f.Tag), m.Field(f.Tag)) {
				ev.Violation(rt, c16, "merge-lost-field", kase, "field %d (known to the merging writer: %v) not preserved byte-for-byte by Merge/Copy", f.Tag, view[f.Tag] != 0 || hasKey(view, f.Tag))
			}
		}
		if _, err := refcodec.Decode(merged, refcodec.Options{Canonical: true}); err != nil {
			ev.Violation(rt, c16, "merge-result-malformed", kase, "independent decoder rejects merged message: %v", err)
		}
		nt := adds > 0 && removes > 0 && setRemoved
		crossing := raw[len(raw)-1] != merged[len(merged)-1]
		ev.Case(c16, ev.Hash(a.Fingerprint(), fmt.Sprint(edits), pre.Fingerprint()), nt,
			fmt.Sprintf("adds>0=%v", adds > 0), fmt.Sprintf("removes>0=%v", removes > 0), fmt.Sprintf("table-form-crossing=%v", crossing), fmt.Sprintf("prewritten>0=%v", len(pre.Fields) > 0), fmt.Sprintf("unknown-field>64KiB=%v", hasBig))
		if ev.WantSample(c16) {
			ev.Sample(c16, kase)
		}
	})
}

func hasKey(m map[uint16]gen.Kind, k uint16) bool { _, ok := m[k]; return ok }
