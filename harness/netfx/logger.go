// Package netfx holds fixtures for the mpx/rpc checks: recording logger, raw wire-level
// peer, fault-injecting TCP proxy and self-describing payloads.
package netfx

import (
	"fmt"
	"strings"
	"sync"

	"github.com/basecomplextech/baselibrary/logging"
	"github.com/basecomplextech/baselibrary/panics"
	"github.com/basecomplextech/baselibrary/status"
)

// Record is one captured error-level log record.
type Record struct {
	Message string
	Status  string
	Panic   bool   // status carries a recovered panic
	Library bool   // the panic was raised inside the module (not by an injected handler panic)
	Stack   string // trimmed stack of a panic
}

// Logger records Warn/Error/Fatal records; everything else goes to the null logger.
type nullLogger = logging.Logger

type RecLogger struct {
	nullLogger
	mu   sync.Mutex
	recs []Record
}

func NewLogger() *RecLogger { return &RecLogger{nullLogger: logging.Null} }

// InjectedPanicMarker must be contained in the panic value of handler panics injected by the harness.
const InjectedPanicMarker = "verif-injected-panic"

func (l *RecLogger) add(msg string, st status.Status) {
	r := Record{Message: msg, Status: st.String()}
	if pe, ok := st.Error.(*panics.Error); ok {
		r.Panic = true
		val := fmt.Sprint(pe.E)
		r.Stack = trimStack(string(pe.Stack))
		r.Library = !strings.Contains(val, InjectedPanicMarker)
	}
	l.mu.Lock()
	if len(l.recs) < 10000 {
		l.recs = append(l.recs, r)
	}
	l.mu.Unlock()
}

func trimStack(s string) string {
	var out []string
	for _, ln := range strings.Split(s, "\n") {
		if strings.Contains(ln, "basecomplextech/spec") && !strings.HasPrefix(ln, "\t") {
			out = append(out, strings.TrimSpace(ln))
		}
		if len(out) >= 12 {
			break
		}
	}
	return strings.Join(out, " <- ")
}

func (l *RecLogger) Logger(name string) logging.Logger { return l }

// Child loggers keep recording into the same sink.
func (l *RecLogger) WithFields(keyValuePairs ...any) logging.Logger { return l }

func (l *RecLogger) Error(msg string, kv ...any) {
	l.add(msg+" "+fmt.Sprint(kv...), status.Status{})
}
func (l *RecLogger) ErrorStatus(msg string, st status.Status, kv ...any) { l.add(msg, st) }
func (l *RecLogger) Fatal(msg string, kv ...any) {
	l.add("FATAL "+msg+" "+fmt.Sprint(kv...), status.Status{})
}
func (l *RecLogger) FatalStatus(msg string, st status.Status, kv ...any) { l.add("FATAL "+msg, st) }
func (l *RecLogger) ErrorOn() bool                                       { return true }

// Records returns a snapshot.
func (l *RecLogger) Records() []Record {
	l.mu.Lock()
	defer l.mu.Unlock()
	return append([]Record(nil), l.recs...)
}

// LibraryPanics returns recovered panics raised inside the module.
func (l *RecLogger) LibraryPanics() []Record {
	var out []Record
	for _, r := range l.Records() {
		if r.Panic && r.Library {
			out = append(out, r)
		}
	}
	return out
}

// ConnErrors returns connection-level error records ("Connection error"/"Connection panic").
func (l *RecLogger) ConnErrors() []Record {
	var out []Record
	for _, r := range l.Records() {
		if strings.HasPrefix(r.Message, "Connection ") {
			out = append(out, r)
		}
	}
	return out
}
