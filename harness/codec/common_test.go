package codec

import (
	"fmt"
	"runtime/debug"
	"sort"
	"strings"

	"verifharness/gen"
	"verifharness/prog"
)

// safeBuild runs Exec.Build converting a library panic into an error value.
func safeBuild(x *prog.Exec, n *gen.Node) (b []byte, eff *gen.Node, err error, panicked string) {
	defer func() {
		if r := recover(); r != nil {
			st := debug.Stack()
			if fromRapid(st) {
				panic(r)
			}
			panicked = fmt.Sprintf("%v\n%s", r, trimStack(st))
		}
	}()
	b, eff, err = x.Build(n)
	return
}

func safeCheck(r *prog.Reader, n *gen.Node, b []byte) (err error, panicked string) {
	defer func() {
		if rec := recover(); rec != nil {
			st := debug.Stack()
			if fromRapid(st) {
				panic(rec)
			}
			panicked = fmt.Sprintf("%v\n%s", rec, trimStack(st))
		}
	}()
	err = r.CheckRoot(n, b)
	return
}

// fromRapid reports whether a recovered panic was raised by rapid itself (it uses
// panics for control flow: invalid data, stop test); those must propagate.
func fromRapid(stack []byte) bool {
	lines := strings.Split(string(stack), "\n")
	seenPanic := false
	for _, l := range lines {
		if strings.HasPrefix(l, "panic(") {
			seenPanic = true
			continue
		}
		if !seenPanic || strings.HasPrefix(l, "\t") {
			continue
		}
		// first function frame below panic()
		return strings.HasPrefix(l, "pgregory.net/rapid.")
	}
	return false
}

func trimStack(s []byte) string {
	lines := strings.Split(string(s), "\n")
	var out []string
	for _, l := range lines {
		if strings.Contains(l, "basecomplextech") || strings.Contains(l, "verifharness") {
			out = append(out, strings.TrimSpace(l))
		}
		if len(out) > 16 {
			break
		}
	}
	return strings.Join(out, "\n")
}

func featList(m map[string]bool) []string {
	out := make([]string, 0, len(m))
	for k := range m {
		out = append(out, k)
	}
	sort.Strings(out)
	return out
}

func hexHead(b []byte, n int) string {
	if len(b) <= n {
		return fmt.Sprintf("%x", b)
	}
	return fmt.Sprintf("%x…(%d bytes)", b[:n], len(b))
}

// EnumSrc enumerates decision vectors: decisions whose label is in Free are enumerated
// odometer-style across runs, all others take Fixed values (default 0).
type EnumSrc struct {
	Free    map[string]bool
	Vec     []int // current values of free decisions, in order of occurrence
	Arity   []int
	pos     int
	Rot     uint64 // rotating value for non-free decisions
	NonFree func(n int, label string) int
}

func (e *EnumSrc) Reset() { e.pos = 0 }

func (e *EnumSrc) Intn(n int, label string) int {
	if n <= 1 {
		return 0
	}
	if e.Free[label] {
		if e.pos >= len(e.Vec) {
			e.Vec = append(e.Vec, 0)
			e.Arity = append(e.Arity, n)
		}
		e.Arity[e.pos] = n
		v := e.Vec[e.pos]
		if v >= n {
			v = n - 1
		}
		e.pos++
		return v
	}
	if e.NonFree != nil {
		return e.NonFree(n, label)
	}
	return 0
}
func (e *EnumSrc) Uint64(string) uint64 { return 0 }
func (e *EnumSrc) Bytes(n int, _ string) []byte {
	return gen.Expand(7, 3, n)
}

// Next advances to the next decision vector; false when exhausted.
func (e *EnumSrc) Next() bool {
	// truncate to the decisions actually used in the last run
	e.Vec = e.Vec[:e.pos]
	e.Arity = e.Arity[:e.pos]
	for i := len(e.Vec) - 1; i >= 0; i-- {
		if e.Vec[i]+1 < e.Arity[i] {
			e.Vec[i]++
			e.Vec = e.Vec[:i+1]
			e.Arity = e.Arity[:i+1]
			return true
		}
	}
	return false
}
