#!/bin/bash
# usage: tools/keep_seed.sh <ID> <slug> <property> "<needs>" "<what I ran>" "<caught by>"
id=$1; slug=$2; prop=$3; needs=$4; ran=$5; caught=$6
d=/verif/seeded/$id-$slug
mkdir -p $d
cp /tmp/seed/$id.${SEED_SUFFIX:-out}/patch.diff $d/patch.diff
rm -rf $d/demo; cp -r /tmp/seed/$id.${SEED_SUFFIX:-out}/demo $d/demo 2>/dev/null
cp /tmp/seed/$id.${SEED_SUFFIX:-out}/README.md $d/AGENT_README.md
python3 - "$d" "$prop" "$needs" "$ran" "$caught" <<'PY'
import json,sys
d,prop,needs,ran,caught=sys.argv[1:6]
json.dump(dict(property=prop, needs_to_manifest=needs, confirmed=ran, caught_by=caught,
               base_commit=open('/repo/.git/HEAD').read().strip() if False else None), open(d+'/meta.json','w'), indent=1)
PY
sed -i "s/\"base_commit\": null/\"base_commit\": \"$(git -C /repo log --format=%h -1)\"/" $d/meta.json
echo kept $d
