package net

// C03 — MPX channels deliver messages exactly once, in order, uncorrupted.

import (
	"fmt"
	"sync"
	"testing"
	"time"

	"github.com/basecomplextech/baselibrary/async"
	"github.com/basecomplextech/baselibrary/status"
	"github.com/basecomplextech/spec/mpx"
	"pgregory.net/rapid"

	"verifharness/ev"
	"verifharness/netfx"
)

const c03 = "C03"

// chanScript is the plan of one channel.
type chanScript struct {
	Conn         int    `json:"conn"`
	ID           uint32 `json:"id"`
	C2S          []int  `json:"client_to_server_sizes"`
	S2C          []int  `json:"server_to_client_sizes"`
	Variant      int    `json:"variant"`              // 0 server closes after reading all; 1 client closes after reading all; 2 client ends early; 3 server ends early
	ClosePayload int    `json:"closing_payload_size"` // 0 = none
	CloseBy      int    `json:"close_by"`             // 0 SendAndClose, 1 Free / handler return
	EarlyAt      int    `json:"early_at"`             // for early variants: end after this many own sends
	YieldC       int    `json:"yield_client"`
	YieldS       int    `json:"yield_server"`
	// BurstPauseUs > 0: the closing side holds its last message back, lets the reader drain and park
	// for this long, then sends the last message and SendAndClose back to back (data and close frame
	// reach the parked reader together)
	BurstPauseUs int `json:"burst_pause_us"`

	// observations
	mu       sync.Mutex
	srvRecv  [][]byte
	cliRecv  [][]byte
	srvEnd   string
	cliEnd   string
	srvSent  int
	cliSent  int
	handlers int
	cliDone  bool
	srvExit  bool
}

type c03case struct {
	Config   netConfig     `json:"config"`
	Conns    int           `json:"connections"`
	Channels []*chanScript `json:"channels"`
	Failure  string        `json:"failure,omitempty"`
}

var c03registry sync.Map // chan id -> *chanScript

func yield(n int, i int) {
	if n > 0 && i%n == 0 {
		for k := 0; k < n; k++ {
			runtimeGosched()
		}
	}
}

// c03Handler is the server side of every C03 channel.
func c03Handler(er *errs) mpx.Handler {
	return mpx.HandleFunc(func(ctx mpx.Context, ch mpx.Channel) status.Status {
		first, st := ch.Receive(ctx)
		if !st.OK() {
			return status.OK // channel opened and closed without a readable message
		}
		return c03HandleWithFirst(er, ctx, ch, first)
	})
}

func c03HandleWithFirst(er *errs, ctx mpx.Context, ch mpx.Channel, first []byte) status.Status {
	{
		if len(first) < 16 {
			er.addf("server: first message of a channel is %d bytes, cannot identify channel", len(first))
			return status.OK
		}
		id := netfx.HeaderChan(first)
		v, ok := c03registry.Load(id)
		if !ok {
			er.addf("server: message for unknown channel id %d: %s", id, netfx.Describe(first))
			return status.OK
		}
		sc := v.(*chanScript)
		defer func() {
			sc.mu.Lock()
			sc.srvExit = true
			sc.mu.Unlock()
		}()
		sc.mu.Lock()
		sc.handlers++
		sc.srvRecv = append(sc.srvRecv, append([]byte(nil), first...))
		sc.mu.Unlock()

		// sender goroutine: server -> client
		var wg sync.WaitGroup
		sendDone := make(chan struct{})
		nSend := len(sc.S2C)
		if sc.Variant == 3 && sc.EarlyAt < nSend {
			nSend = sc.EarlyAt
		}
		burst := sc.BurstPauseUs > 0 && sc.Variant == 0 && sc.CloseBy == 0 && nSend >= 1
		if burst {
			nSend--
		}
		wg.Add(1)
		go func() {
			defer wg.Done()
			defer close(sendDone)
			for i := 0; i < nSend; i++ {
				yield(sc.YieldS, i)
				p := netfx.Make(netfx.Header{Conn: uint16(sc.Conn), Chan: sc.ID, Dir: 1, Seq: uint32(i)}, sc.S2C[i])
				if st := ch.Send(ctx, p); !st.OK() {
					return
				}
				sc.mu.Lock()
				sc.srvSent = i + 1
				sc.mu.Unlock()
			}
		}()
		// receive
		want := len(sc.C2S)
		got := 1
		var stop <-chan struct{}
		if sc.Variant == 3 {
			stop = sendDone // ends early: as soon as its own sends are done
		}
		for {
			if sc.Variant == 0 && got >= want {
				break // server closes once it has everything
			}
			msg, st, stopped := recvUntil(ctx, ch, stop)
			if stopped {
				break
			}
			if !st.OK() {
				sc.mu.Lock()
				sc.srvEnd = string(st.Code)
				sc.mu.Unlock()
				break
			}
			if len(msg) == 0 {
				continue
			}
			sc.mu.Lock()
			sc.srvRecv = append(sc.srvRecv, append([]byte(nil), msg...))
			sc.mu.Unlock()
			got++
		}
		if sc.Variant == 0 || sc.Variant == 3 {
			<-sendDone
			wg.Wait()
			if burst && sc.srvSentAll(nSend) {
				time.Sleep(time.Duration(sc.BurstPauseUs) * time.Microsecond)
				if st := ch.Send(ctx, netfx.Make(netfx.Header{Conn: uint16(sc.Conn), Chan: sc.ID, Dir: 1, Seq: uint32(nSend)}, sc.S2C[nSend])); st.OK() {
					sc.mu.Lock()
					sc.srvSent = nSend + 1
					sc.mu.Unlock()
				}
			}
			if sc.CloseBy == 0 {
				var p []byte
				if sc.ClosePayload > 0 && sc.Variant == 0 {
					p = netfx.Make(netfx.Header{Conn: uint16(sc.Conn), Chan: sc.ID, Dir: 1, Seq: uint32(len(sc.S2C))}, sc.ClosePayload)
				}
				ch.SendAndClose(ctx, p)
			}
			return status.OK // handler return frees the channel
		}
		wg.Wait()
		return status.OK
	}
}

func runC03Client(conn mpx.Conn, sc *chanScript, er *errs) {
	defer func() {
		sc.mu.Lock()
		sc.cliDone = true
		sc.mu.Unlock()
	}()
	ctx := ctxNone()
	ch, st := conn.Channel(ctx)
	if !st.OK() {
		er.addf("client: Channel(): %v", st)
		return
	}
	defer ch.Free()
	nSend := len(sc.C2S)
	if sc.Variant == 2 && sc.EarlyAt < nSend {
		nSend = sc.EarlyAt
		if nSend < 1 {
			nSend = 1
		}
	}
	burst := sc.BurstPauseUs > 0 && sc.Variant == 1 && sc.CloseBy == 0 && nSend >= 2
	if burst {
		nSend--
	}
	var wg sync.WaitGroup
	sendDone := make(chan struct{})
	wg.Add(1)
	go func() {
		defer wg.Done()
		defer close(sendDone)
		for i := 0; i < nSend; i++ {
			yield(sc.YieldC, i)
			p := netfx.Make(netfx.Header{Conn: uint16(sc.Conn), Chan: sc.ID, Dir: 0, Seq: uint32(i)}, sc.C2S[i])
			if st := ch.Send(ctx, p); !st.OK() {
				return
			}
			sc.mu.Lock()
			sc.cliSent = i + 1
			sc.mu.Unlock()
		}
	}()
	want := len(sc.S2C)
	got := 0
	var stop <-chan struct{}
	if sc.Variant == 2 {
		stop = sendDone
	}
	for {
		if sc.Variant == 1 && got >= want {
			break
		}
		msg, st, stopped := recvUntil(ctx, ch, stop)
		if stopped {
			break
		}
		if !st.OK() {
			sc.mu.Lock()
			sc.cliEnd = string(st.Code)
			sc.mu.Unlock()
			break
		}
		if len(msg) == 0 {
			continue
		}
		sc.mu.Lock()
		sc.cliRecv = append(sc.cliRecv, append([]byte(nil), msg...))
		sc.mu.Unlock()
		got++
	}
	if sc.Variant == 1 || sc.Variant == 2 {
		<-sendDone
		if burst && sc.cliSentAll(nSend) {
			time.Sleep(time.Duration(sc.BurstPauseUs) * time.Microsecond)
			if st := ch.Send(ctx, netfx.Make(netfx.Header{Conn: uint16(sc.Conn), Chan: sc.ID, Dir: 0, Seq: uint32(nSend)}, sc.C2S[nSend])); st.OK() {
				sc.mu.Lock()
				sc.cliSent = nSend + 1
				sc.mu.Unlock()
			}
		}
		if sc.CloseBy == 0 {
			var p []byte
			if sc.ClosePayload > 0 && sc.Variant == 1 {
				p = netfx.Make(netfx.Header{Conn: uint16(sc.Conn), Chan: sc.ID, Dir: 0, Seq: uint32(len(sc.C2S))}, sc.ClosePayload)
			}
			ch.SendAndClose(ctx, p)
		}
	}
	wg.Wait()
}

func (sc *chanScript) srvSentAll(n int) bool {
	sc.mu.Lock()
	defer sc.mu.Unlock()
	return sc.srvSent == n
}
func (sc *chanScript) cliSentAll(n int) bool {
	sc.mu.Lock()
	defer sc.mu.Unlock()
	return sc.cliSent == n
}

// verify applies the C03 oracle to one finished channel.
func (sc *chanScript) verify() error {
	sc.mu.Lock()
	defer sc.mu.Unlock()
	if sc.handlers > 1 {
		return fmt.Errorf("channel %d: %d handler invocations", sc.ID, sc.handlers)
	}
	check := func(dir uint8, recv [][]byte, sizes []int, closing int, complete bool, who string) error {
		exp := append([]int(nil), sizes...)
		if closing > 0 {
			exp = append(exp, closing)
		}
		if len(recv) > len(exp) {
			return fmt.Errorf("channel %d: %s received %d messages, only %d were sent (extra: %s)", sc.ID, who, len(recv), len(exp), netfx.Describe(recv[len(exp)]))
		}
		for i, p := range recv {
			if err := netfx.Verify(p, netfx.Header{Conn: uint16(sc.Conn), Chan: sc.ID, Dir: dir, Seq: uint32(i)}, exp[i]); err != nil {
				return fmt.Errorf("channel %d: %s message %d: %v", sc.ID, who, i, err)
			}
		}
		if complete && len(recv) != len(exp) {
			return fmt.Errorf("channel %d: %s read until the end status but got only %d of %d messages (the sender finished all sends and closed)", sc.ID, who, len(recv), len(exp))
		}
		return nil
	}
	// completeness rules
	srvComplete := false
	cliComplete := false
	switch sc.Variant {
	case 0: // server counted all c2s, then closed; client read to end
		srvComplete = true // by counting; handler exits only then
		cliComplete = sc.cliEnd != "" && sc.srvSent == len(sc.S2C)
	case 1: // client counted all s2c, then closed; server read to end
		cliComplete = true
		srvComplete = sc.srvEnd != "" && sc.cliSent == len(sc.C2S)
	}
	c2sClosing, s2cClosing := 0, 0
	if sc.CloseBy == 0 && sc.ClosePayload > 0 {
		if sc.Variant == 0 {
			s2cClosing = sc.ClosePayload
		}
		if sc.Variant == 1 {
			c2sClosing = sc.ClosePayload
		}
	}
	if sc.Variant == 0 && len(sc.srvRecv) < len(sc.C2S) {
		// server left its loop only after counting; fewer means its Receive ended early
		return fmt.Errorf("channel %d: server saw end status %q after %d of %d client messages although the client never closed", sc.ID, sc.srvEnd, len(sc.srvRecv), len(sc.C2S))
	}
	if sc.Variant == 1 && len(sc.cliRecv) < len(sc.S2C) {
		return fmt.Errorf("channel %d: client saw end status %q after %d of %d server messages although the server never closed", sc.ID, sc.cliEnd, len(sc.cliRecv), len(sc.S2C))
	}
	if err := check(0, sc.srvRecv, sc.C2S, c2sClosing, srvComplete && sc.Variant == 1, "server"); err != nil {
		return err
	}
	if err := check(1, sc.cliRecv, sc.S2C, s2cClosing, cliComplete && sc.Variant == 0, "client"); err != nil {
		return err
	}
	return nil
}

func drawScripts(rt *rapid.T, cfg netConfig, conns int) []*chanScript {
	n := rapid.IntRange(1, 24).Draw(rt, "channels")
	w := cfg.effWindow()
	var out []*chanScript
	total := 0
	for i := 0; i < n; i++ {
		sc := &chanScript{Conn: rapid.IntRange(0, conns-1).Draw(rt, "conn"), ID: chanSeq.Add(1)}
		nc := rapid.IntRange(1, 6).Draw(rt, "nc2s")
		ns := rapid.IntRange(0, 6).Draw(rt, "ns2c")
		for k := 0; k < nc; k++ {
			sz := drawSize(rt, w, "c2s")
			if k == 0 && sz < 16 {
				sz = 16 // the first message identifies the channel
			}
			sc.C2S = append(sc.C2S, sz)
			total += sz
		}
		for k := 0; k < ns; k++ {
			sz := drawSize(rt, w, "s2c")
			sc.S2C = append(sc.S2C, sz)
			total += sz
		}
		sc.Variant = rapid.IntRange(0, 3).Draw(rt, "variant")
		if rapid.Bool().Draw(rt, "closepayload") {
			sc.ClosePayload = drawSize(rt, w, "closesize")
		}
		sc.CloseBy = rapid.IntRange(0, 1).Draw(rt, "closeby")
		sc.EarlyAt = rapid.IntRange(0, 6).Draw(rt, "earlyat")
		sc.YieldC = rapid.IntRange(0, 3).Draw(rt, "yieldc")
		sc.YieldS = rapid.IntRange(0, 3).Draw(rt, "yields")
		sc.BurstPauseUs = []int{0, 0, 50, 300, 2000}[rapid.IntRange(0, 4).Draw(rt, "burst")]
		out = append(out, sc)
		if total > 6<<20 {
			break
		}
	}
	return out
}

func TestC03_Delivery(t *testing.T) {
	ev.Rule(c03, "rapid: configuration (window in {1,2,3,7,64,1000,65536,default}, write queue/read/write buffers in {16,17,100,4096,default}, compression, GOMAXPROCS in {1,2,16}, 1..3 connections) and 1..24 concurrent channels, each with a script: message sizes relative to the window in both directions, closing side and mode (SendAndClose with/without payload, Free, handler return), early ends, yield patterns; real mpx server and clients on loopback, one sender and one receiver goroutine per channel end; oracle: received is a prefix of sent (self-describing PRF payloads: same bytes, order, channel, no duplicates), complete whenever the receiver read to the end status without ending the channel and the sender finished; non-trivial = >=2 channels and (a message >= window/2 or >= a buffer size, or both directions active); distinct by script hash")
	ev.Check(t, c03, func(rt *rapid.T) {
		cfg := drawConfig(rt)
		cfg.Sched = drawSched(rt)
		conns := rapid.IntRange(1, 3).Draw(rt, "conns")
		scripts := drawScripts(rt, cfg, conns)
		kase := &c03case{Config: cfg, Conns: conns, Channels: scripts}
		fail := runC03(cfg, conns, scripts)
		if fail.key == "infra" {
			ev.InfraSkip(rt, c03, "%s", fail.msg)
		}
		if fail.key != "" {
			kase.Failure = fail.msg
			ev.Violation(rt, c03, fail.key, kase, "%s", fail.msg)
		}
		// classification
		big, both := false, false
		var hp []any
		for _, sc := range scripts {
			if len(sc.S2C) > 0 {
				both = true
			}
			for _, s := range append(append([]int{}, sc.C2S...), sc.S2C...) {
				if s >= cfg.effWindow()/2 || (cfg.WriteBuf > 0 && s >= cfg.WriteBuf) || (cfg.ReadBuf > 0 && s >= cfg.ReadBuf) {
					big = true
				}
			}
			hp = append(hp, fmt.Sprint(sc.C2S, sc.S2C, sc.Variant, sc.ClosePayload, sc.CloseBy, sc.EarlyAt, sc.Conn))
		}
		hp = append(hp, fmt.Sprint(cfg))
		nt := len(scripts) >= 2 && (big || both)
		ev.Case(c03, ev.Hash(hp...), nt, fmt.Sprintf("window=%d", cfg.Window), fmt.Sprintf("compression=%v", cfg.Compression), fmt.Sprintf("procs=%d", cfg.Procs))
		if ev.WantSample(c03) {
			ev.Sample(c03, kase)
		}
	})
}

// TestC03_DeliveryUnderBackpressure runs the Delivery scripts through a proxy that suspends forwarding in
// one direction for tens of milliseconds at drawn moments. A pause only delays bytes, so every delivery
// guarantee is unchanged; what changes is that write queues and socket buffers stay full for a long time:
// window updates, close frames and data wait for queue space while contexts are cancelled and channels end.
func TestC03_DeliveryUnderBackpressure(t *testing.T) {
	ev.Rule(c03, "rapid, back-pressure variant: Delivery scripts (1..8 channels) over connections that pass through a TCP proxy which suspends forwarding in a drawn direction 1..3 times (start 0..30 ms into the case, for 20..150 ms); small write queues {16,17,100,4096}, windows {16 KiB, 64 KiB} and 16 KiB proxy receive buffers so that window updates become due while the queue is full; oracle as in Delivery; non-trivial = all")
	ev.CheckScaled(t, c03, 1, 32, func(rt *rapid.T) {
		cfg := drawConfig(rt)
		cfg.Sched = drawSched(rt)
		// the window must allow enough data in flight to fill the kernel buffers of a paused direction
		cfg.Window = []int{16384, 65536, 65536}[rapid.IntRange(0, 2).Draw(rt, "bpwindow")]
		cfg.WriteQueue = []int{16, 17, 100, 4096}[rapid.IntRange(0, 3).Draw(rt, "bpwriteq")]
		np := rapid.IntRange(1, 3).Draw(rt, "pauses")
		for i := 0; i < np; i++ {
			cfg.Pauses = append(cfg.Pauses, pauseSpec{Dir: rapid.IntRange(0, 1).Draw(rt, "pausedir"), AfterMs: rapid.IntRange(0, 30).Draw(rt, "pauseafter"), ForMs: rapid.IntRange(20, 150).Draw(rt, "pausefor")})
		}
		scripts := drawScripts(rt, cfg, 1)
		if len(scripts) > 8 {
			scripts = scripts[:8]
		}
		kase := &c03case{Config: cfg, Conns: 1, Channels: scripts}
		fail := runC03(cfg, 1, scripts)
		if fail.key == "infra" {
			ev.InfraSkip(rt, c03, "%s", fail.msg)
		}
		if fail.key != "" {
			kase.Failure = fail.msg
			ev.Violation(rt, c03, "backpressure:"+fail.key, kase, "%s", fail.msg)
		}
		var hp []any
		for _, sc := range scripts {
			hp = append(hp, fmt.Sprint(sc.C2S, sc.S2C, sc.Variant, sc.ClosePayload, sc.CloseBy, sc.EarlyAt))
		}
		ev.Case(c03, ev.Hash(append(hp, "bp", fmt.Sprint(cfg))...), true, "backpressure")
	})
}

type failure struct{ key, msg string }

// recvUntil receives the next message, or returns stopped=true when stop fires first.
func recvUntil(ctx async.Context, ch mpx.Channel, stop <-chan struct{}) (msg []byte, st status.Status, stopped bool) {
	if stop == nil {
		// the canonical blocking call, with the caller's context (a handler's channel context on the server)
		m, st := ch.Receive(ctx)
		return m, st, false
	}
	for {
		if stop != nil {
			select {
			case <-stop:
				return nil, status.OK, true
			default:
			}
		}
		// wait channel first, then poll (the poll-then-wait order can miss a wakeup: known finding)
		wait := ch.ReceiveWait()
		m, ok, st := ch.ReceiveAsync(ctx)
		if !st.OK() {
			return nil, st, false
		}
		if ok {
			return m, status.OK, false
		}
		select {
		case <-wait:
		case <-stop:
			return nil, status.OK, true
		}
	}
}

func runC03(cfg netConfig, conns int, scripts []*chanScript) (f failure) {
	defer cfg.Sched.install()()
	withProcs(cfg.Procs, func() {
		log := netfx.NewLogger()
		er := &errs{}
		srv, err := netfx.StartServer(c03Handler(er), log, cfg.options())
		if err != nil {
			f = failure{"", ""}
			panic(fmt.Sprintf("infrastructure: %v", err))
		}
		defer srv.Stop()
		for _, sc := range scripts {
			c03registry.Store(sc.ID, sc)
		}
		defer func() {
			for _, sc := range scripts {
				c03registry.Delete(sc.ID)
			}
		}()
		addr := srv.Addr
		if len(cfg.Pauses) > 0 {
			px, err := netfx.NewProxy(srv.Addr)
			if err != nil {
				panic(fmt.Sprintf("infrastructure: %v", err))
			}
			defer px.Close()
			px.SetSmallBuffers(true) // a paused direction pushes back on the sender after tens of KB, not megabytes
			addr = px.Addr()
			stopPauses := make(chan struct{})
			defer close(stopPauses)
			for _, ps := range cfg.Pauses {
				go func(ps pauseSpec) {
					select {
					case <-time.After(time.Duration(ps.AfterMs) * time.Millisecond):
						px.PauseDir(ps.Dir, time.Duration(ps.ForMs)*time.Millisecond)
					case <-stopPauses:
					}
				}(ps)
			}
		}
		var cs []mpx.Conn
		for i := 0; i < conns; i++ {
			c, st := mpx.Connect(ctxNone(), addr, log, cfg.options())
			if !st.OK() {
				f = failure{"infra", fmt.Sprintf("Connect: %v", st)}
				return
			}
			cs = append(cs, c)
		}
		var wg sync.WaitGroup
		for _, sc := range scripts {
			wg.Add(1)
			go func(sc *chanScript) {
				defer wg.Done()
				runC03Client(cs[sc.Conn], sc, er)
			}(sc)
		}
		if !waitGroupTimeout(&wg, hangTimeout()) {
			state := ""
			for _, sc := range scripts {
				sc.mu.Lock()
				if !sc.cliDone {
					state += fmt.Sprintf("[unfinished channel %d variant=%d closeBy=%d: handlers=%d srvRecv=%d/%d srvSent=%d/%d srvEnd=%q srvExit=%v cliRecv=%d cliSent=%d/%d cliEnd=%q] ", sc.ID, sc.Variant, sc.CloseBy, sc.handlers, len(sc.srvRecv), len(sc.C2S), sc.srvSent, len(sc.S2C), sc.srvEnd, sc.srvExit, len(sc.cliRecv), sc.cliSent, len(sc.C2S), sc.cliEnd)
				}
				sc.mu.Unlock()
			}
			f = failure{"hang", "channels did not finish within " + hangTimeout().String() + " (both sides run independent sender and receiver goroutines, so no user-level wait cycle exists): " + state + "\n" + goroutineDump()}
			for _, c := range cs {
				c.Close()
			}
			return
		}
		// let server handlers finish: they end when their channel ends
		deadline := time.Now().Add(20 * time.Second)
		for {
			pending := 0
			for _, sc := range scripts {
				sc.mu.Lock()
				if sc.handlers == 0 && len(sc.C2S) > 0 {
					pending++
				}
				sc.mu.Unlock()
			}
			if pending == 0 || time.Now().After(deadline) {
				break
			}
			time.Sleep(time.Millisecond)
		}
		// server-side completion for variant 1/2 needs the handler to observe the end
		for _, sc := range scripts {
			if sc.Variant == 1 || sc.Variant == 2 {
				for i := 0; i < 20000; i++ {
					sc.mu.Lock()
					done := sc.srvEnd != ""
					sc.mu.Unlock()
					if done {
						break
					}
					time.Sleep(time.Millisecond)
				}
			}
		}
		for _, c := range cs {
			if c.Closed().IsSet() {
				f = failure{"connection-closed", "a connection closed during the case: " + fmt.Sprint(log.ConnErrors())}
				return
			}
		}
		if p := libraryPanicText(log); p != "" {
			f = failure{"library-panic", p}
			return
		}
		if e := er.first(); e != "" {
			f = failure{"delivery", e}
			return
		}
		for _, sc := range scripts {
			if err := sc.verify(); err != nil {
				f = failure{"delivery", err.Error()}
				return
			}
		}
		for _, c := range cs {
			c.Close()
		}
	})
	return
}
