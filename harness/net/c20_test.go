package net

// C20 — handlers and close listeners fire exactly once.

import (
	"fmt"
	"sync"
	"sync/atomic"
	"testing"
	"time"

	"github.com/basecomplextech/baselibrary/status"
	"github.com/basecomplextech/spec/mpx"
	"pgregory.net/rapid"

	"verifharness/ev"
	"verifharness/gen"
	"verifharness/netfx"
)

const c20 = "C20"

type reg struct {
	ok       bool
	unsub    int32 // 0 never, 1 unsubscribe returned with the closed flag still unset, 2 unsubscribed after the flag was set
	unsubMid bool  // unsub == 1 although the shutdown had already been initiated
	calls    atomic.Int32
	flagSeen atomic.Bool // closed flag was set when the listener ran
	flagBad  atomic.Bool
	via      int // 0 OnClosed, 1 Context().OnDisconnected
}

type c20lisCase struct {
	Registrars int    `json:"registrar_goroutines"`
	PerG       int    `json:"registrations_per_goroutine"`
	CloseBy    string `json:"closed_by"`
	Side       string `json:"listeners_on"`
	Delay      int    `json:"close_delay_spins"`
	Failure    string `json:"failure,omitempty"`
}

func TestC20_Listeners(t *testing.T) {
	ev.Rule(c20, "listeners: 1..8 goroutines register OnClosed / Context().OnDisconnected listeners (and unsubscribe a drawn subset) on the client-side or server-side connection object while the connection is shut down by client Close, by the peer (server-side close / raw socket close) at a drawn moment; oracle after quiescence (checked twice, 100 ms apart): ok=true and not unsubscribed => exactly one call, made after Closed() is set; ok=false => never called; unsubscribed and the closed flag still unset when the unsubscribe returned (also in the middle of a shutdown) => never called; unsubscribed later => 0 or 1 calls; non-trivial = >=1 registration overlapped the shutdown (registrations both before and after the close in one goroutine); distinct by (config, outcome vector) hash")
	ev.Check(t, c20, func(rt *rapid.T) {
		defer drawSched(rt).install()() // seeded yields at the library's schedule points
		g := rapid.IntRange(1, 8).Draw(rt, "registrars")
		per := rapid.IntRange(1, 60).Draw(rt, "per")
		closeBy := []string{"client-close", "server-conn-close", "raw-socket-close"}[rapid.IntRange(0, 2).Draw(rt, "closeby")]
		side := []string{"client", "server"}[rapid.IntRange(0, 1).Draw(rt, "side")]
		delay := rapid.IntRange(0, 100).Draw(rt, "delay_percent_of_registrations")
		procs := []int{1, 2, 16}[rapid.IntRange(0, 2).Draw(rt, "procs")]
		unsubEvery := rapid.IntRange(0, 5).Draw(rt, "unsubevery")
		kase := &c20lisCase{Registrars: g, PerG: per, CloseBy: closeBy, Side: side, Delay: delay}
		var fail failure
		overlap := false
		withProcs(procs, func() {
			log := netfx.NewLogger()
			srvConn := make(chan mpx.Conn, 1)
			release := make(chan struct{})
			handler := mpx.HandleFunc(func(ctx mpx.Context, ch mpx.Channel) status.Status {
				select {
				case srvConn <- ch.Conn():
				default:
				}
				select {
				case <-ctx.Wait():
				case <-release:
				}
				return status.OK
			})
			opts := mpx.Default()
			opts.Compression = false
			srv, err := netfx.StartServer(handler, log, opts)
			if err != nil {
				panic("infrastructure: " + err.Error())
			}
			defer srv.Stop()
			defer close(release)
			px, err := netfx.NewProxy(srv.Addr)
			if err != nil {
				panic("infrastructure: " + err.Error())
			}
			defer px.Close()
			cli, st := mpx.Connect(ctxNone(), px.Addr(), log, opts)
			if !st.OK() {
				panic("infrastructure: " + st.String())
			}
			defer cli.Close()
			ch, st := cli.Channel(ctxNone())
			if !st.OK() {
				panic("infrastructure: " + st.String())
			}
			defer ch.Free()
			ch.Send(ctxNone(), []byte("hello"))
			var target mpx.Conn
			select {
			case sc := <-srvConn:
				target = sc
				if side == "client" {
					target = cli
				}
				if closeBy == "server-conn-close" {
					defer sc.Close()
				}
				var closeInit atomic.Bool
				var progress atomic.Int64
				var regs []*reg
				var mu sync.Mutex
				var wg sync.WaitGroup
				start := make(chan struct{})
				for i := 0; i < g; i++ {
					wg.Add(1)
					go func(i int) {
						defer wg.Done()
						<-start
						sawOpen, sawClosed := false, false
						for k := 0; k < per; k++ {
							r := &reg{via: (i + k) % 2}
							fn := func() {
								if target.Closed().IsSet() {
									r.flagSeen.Store(true)
								} else {
									r.flagBad.Store(true)
								}
								r.calls.Add(1)
							}
							var unsub func()
							if r.via == 0 {
								unsub, r.ok = target.OnClosed(fn)
							} else {
								unsub, r.ok = target.Context().OnDisconnected(fn)
							}
							if r.ok {
								sawOpen = true
							} else {
								sawClosed = true
							}
							if r.ok && unsubEvery > 0 && k%unsubEvery == 0 {
								// "before the close": the unsubscribe returned and the connection's closed flag was
								// still unset afterwards. The flag is set before any listener runs, so the listener
								// was removed before the notification could start, however far the shutdown
								// (context cancelled, socket closed) had already got.
								unsub()
								if !target.Closed().IsSet() {
									r.unsub = 1
									if closeInit.Load() {
										r.unsubMid = true
									}
								} else {
									r.unsub = 2
								}
							}
							mu.Lock()
							regs = append(regs, r)
							mu.Unlock()
							progress.Add(1)
							if k%3 == 0 {
								runtimeGosched()
							}
						}
						if sawOpen && sawClosed {
							mu.Lock()
							overlap = true
							mu.Unlock()
						}
					}(i)
				}
				close(start)
				thr := int64(g*per*delay) / 100
				for spin := 0; progress.Load() < thr && spin < 5000000; spin++ {
					runtimeGosched()
				}
				closeInit.Store(true)
				switch closeBy {
				case "client-close":
					cli.Close()
				case "server-conn-close":
					sc.Close()
				default:
					px.KillAll(netfx.CutRST)
				}
				if !waitGroupTimeout(&wg, hangTimeout()) {
					fail = failure{"listeners:hang", "registrars did not finish"}
					return
				}
				select {
				case <-target.Closed().Wait():
				case <-time.After(boundArrive()):
					fail = failure{"listeners:not-closed", fmt.Sprintf("connection (%s side) not closed %v after %s", side, boundArrive(), closeBy)}
					return
				}
				// quiescence: counts must be final
				snapshot := func() []int32 {
					out := make([]int32, len(regs))
					for i, r := range regs {
						out[i] = r.calls.Load()
					}
					return out
				}
				// counts are final once two snapshots 100 ms apart agree (listeners run on the
				// connection's own goroutine shortly after the closed flag is set; lateness is
				// not a violation, so wait for stability instead of assuming a deadline)
				time.Sleep(20 * time.Millisecond)
				s1 := snapshot()
				var s2 []int32
				for tries := 0; ; tries++ {
					time.Sleep(100 * time.Millisecond)
					s2 = snapshot()
					same := true
					for i := range s1 {
						if s1[i] != s2[i] {
							same = false
						}
					}
					if same || tries > 100 {
						break
					}
					s1 = s2
				}
				for i, r := range regs {
					n := s2[i]
					desc := fmt.Sprintf("registration #%d (%s, ok=%v, unsub=%d)", i, map[int]string{0: "OnClosed", 1: "OnDisconnected"}[r.via], r.ok, r.unsub)
					switch {
					case s1[i] != n:
						fail = failure{"listeners:never-quiescent", desc + ": call count still changing after 10 s"}
					case r.flagBad.Load():
						fail = failure{"listeners:flag-not-set", desc + ": listener ran while Closed() was not yet set"}
					case !r.ok && n != 0:
						fail = failure{"listeners:called-after-false", fmt.Sprintf("%s: registration reported the connection as already closed but the listener was invoked %d time(s)", desc, n)}
					case r.ok && r.unsub == 0 && n != 1:
						fail = failure{"listeners:not-exactly-once", fmt.Sprintf("%s: listener invoked %d times, want exactly 1", desc, n)}
					case r.ok && r.unsub == 1 && n != 0:
						fail = failure{"listeners:called-after-unsub", fmt.Sprintf("%s: unsubscribed while the closed flag was still unset (shutdown already initiated: %v) but invoked %d time(s)", desc, r.unsubMid, n)}
					case r.ok && r.unsub == 2 && n > 1:
						fail = failure{"listeners:not-exactly-once", fmt.Sprintf("%s: listener invoked %d times", desc, n)}
					}
					if fail.key != "" {
						return
					}
				}
				ev.Label(c20, "registrations", int64(len(regs)))
			case <-time.After(boundArrive()):
				panic("infrastructure: handler did not start")
			}
			if p := libraryPanicText(log); p != "" {
				fail = failure{"listeners:library-panic", p}
			}
		})
		if fail.key != "" {
			kase.Failure = fail.msg
			ev.Violation(rt, c20, fail.key, kase, "%s", fail.msg)
		}
		ev.Case(c20, ev.Hash("L", g, per, closeBy, side, delay, unsubEvery, procs), overlap, fmt.Sprintf("listeners:overlap=%v", overlap), "listeners:closeby="+closeBy, "listeners:side="+side)
		if ev.WantSample(c20) {
			ev.Sample(c20, kase)
		}
	})
}

type c20hCase struct {
	Frames  []string `json:"frames"`
	Failure string   `json:"failure,omitempty"`
}

func TestC20_Handlers(t *testing.T) {
	ev.Rule(c20, "handlers: a raw wire-level peer opens channels by single open frames, open+close batches, opens with and without payload and duplicate ids, then ends them by close frames or by dropping the connection; handler behaviours are drawn from {return at once, block on its context, read to the end}; oracle: exactly one handler invocation per accepted open (keyed by id), a duplicate open never starts a second handler and ends the connection, the handler context is not cancelled while the channel is live and is cancelled within 10 s after the channel ends from either side or the connection is lost; non-trivial = script contains an open+close batch, a duplicate id or a connection drop with live handlers")
	ev.Check(t, c20, func(rt *rapid.T) {
		defer drawSched(rt).install()() // seeded yields at the library's schedule points
		type hrec struct {
			calls     atomic.Int32
			behaviour int
			cancelled atomic.Bool
			liveOK    atomic.Bool
			exited    atomic.Bool
		}
		var recs sync.Map
		get := func(id uint32) *hrec {
			v, _ := recs.LoadOrStore(id, &hrec{})
			return v.(*hrec)
		}
		log := netfx.NewLogger()
		handler := mpx.HandleFunc(func(ctx mpx.Context, ch mpx.Channel) status.Status {
			m, st := ch.Receive(ctx)
			if !st.OK() || len(m) < 5 {
				recs.Store(uint32(0xfffffff0), &hrec{})
				return status.OK
			}
			id := uint32(m[1])<<24 | uint32(m[2])<<16 | uint32(m[3])<<8 | uint32(m[4])
			r := get(id)
			r.calls.Add(1)
			r.behaviour = int(m[0])
			defer r.exited.Store(true)
			switch m[0] {
			case 0:
				return status.OK
			case 1:
				if !ctx.Done() {
					r.liveOK.Store(true)
				}
				<-ctx.Wait()
				r.cancelled.Store(true)
				return status.OK
			default:
				for {
					if _, st := ch.Receive(ctx); !st.OK() {
						break
					}
				}
				// after the end the context must be (or soon become) cancelled
				select {
				case <-ctx.Wait():
					r.cancelled.Store(true)
				case <-time.After(boundArrive()):
				}
				return status.OK
			}
		})
		opts := mpx.Default()
		opts.Compression = false
		srv, err := netfx.StartServer(handler, log, opts)
		if err != nil {
			ev.InfraSkip(rt, c20, "%v", err)
		}
		defer srv.Stop()
		peer, err := netfx.DialRaw(srv.Addr)
		if err != nil {
			ev.InfraSkip(rt, c20, "%v", err)
		}
		defer peer.Close()
		if _, err := peer.ClientHandshake(false); err != nil {
			ev.InfraSkip(rt, c20, "%v", err)
		}
		kase := &c20hCase{}
		n := rapid.IntRange(1, 20).Draw(rt, "nopens")
		type opened struct {
			id        uint32
			behaviour byte
			closed    bool // close frame sent by the peer
			batch     bool
		}
		var ops []*opened
		dupAt := -1
		if rapid.IntRange(0, 4).Draw(rt, "dup") == 0 && n > 1 {
			dupAt = rapid.IntRange(1, n-1).Draw(rt, "dupat")
		}
		interesting := false
		connDown := false
		payload := func(o *opened) []byte {
			return []byte{o.behaviour, byte(o.id >> 24), byte(o.id >> 16), byte(o.id >> 8), byte(o.id)}
		}
		for i := 0; i < n; i++ {
			o := &opened{id: uint32(i + 1), behaviour: byte(rapid.IntRange(0, 2).Draw(rt, "behaviour"))}
			id := netfx.MakeID(o.id)
			if i == dupAt {
				// duplicate of an id that is still open: pick an earlier blocking handler if any
				var victim *opened
				for _, p := range ops {
					if p.behaviour != 0 && !p.closed {
						victim = p
					}
				}
				if victim != nil {
					interesting = true
					kase.Frames = append(kase.Frames, fmt.Sprintf("duplicate open of live id %d", victim.id))
					// the victim's handler has to be running first (it identifies itself by its first
					// message; once the connection is torn down that message may never be delivered)
					for dl := time.Now().Add(boundArrive()); get(victim.id).calls.Load() == 0; {
						if time.Now().After(dl) {
							ev.Violation(rt, c20, "handlers:missing", kase, "no handler invocation for opened channel id %d within %v", victim.id, boundArrive())
						}
						time.Sleep(200 * time.Microsecond)
					}
					peer.WriteMsg(netfx.OpenMsg(netfx.MakeID(victim.id), 1<<20, payload(victim)))
					// the connection must end; no second handler for that id
					if err := peer.ExpectEOF(boundArrive()); err != nil {
						kase.Failure = err.Error()
						ev.Violation(rt, c20, "handlers:duplicate-open-tolerated", kase, "server kept the connection after a duplicate open of a live channel id: %v", err)
					}
					time.Sleep(20 * time.Millisecond)
					if c := get(victim.id).calls.Load(); c != 1 {
						ev.Violation(rt, c20, "handlers:not-exactly-once", kase, "channel id %d: handler invoked %d times after a duplicate open", victim.id, c)
					}
					connDown = true
					break
				}
			}
			switch rapid.IntRange(0, 3).Draw(rt, "openkind") {
			case 0: // open + close in one batch, payload on the open
				interesting = true
				o.batch, o.closed = true, true
				kase.Frames = append(kase.Frames, fmt.Sprintf("batch[open %d b=%d; close]", o.id, o.behaviour))
				peer.WriteMsg(netfx.BatchMsg(netfx.OpenMsg(id, 1<<20, payload(o)), netfx.CloseMsg(id, nil)))
			case 1: // open without payload, payload as data frame
				kase.Frames = append(kase.Frames, fmt.Sprintf("open %d (no payload); data", o.id))
				peer.WriteMsg(netfx.OpenMsg(id, 1<<20, nil))
				peer.WriteMsg(netfx.DataMsg(id, payload(o)))
			default:
				kase.Frames = append(kase.Frames, fmt.Sprintf("open %d b=%d", o.id, o.behaviour))
				peer.WriteMsg(netfx.OpenMsg(id, 1<<20, payload(o)))
			}
			ops = append(ops, o)
		}
		// every accepted open gets its handler
		deadline := time.Now().Add(boundArrive())
		for _, o := range ops {
			for get(o.id).calls.Load() == 0 {
				if time.Now().After(deadline) {
					ev.Violation(rt, c20, "handlers:missing", kase, "no handler invocation for opened channel id %d within %v", o.id, boundArrive())
				}
				time.Sleep(200 * time.Microsecond)
			}
		}
		// end some channels by close frames, the rest by dropping the connection
		for _, o := range ops {
			if !o.closed && !connDown && rapid.Bool().Draw(rt, "closeframe") {
				o.closed = true
				kase.Frames = append(kase.Frames, fmt.Sprintf("close %d", o.id))
				peer.WriteMsg(netfx.CloseMsg(netfx.MakeID(o.id), nil))
			}
		}
		live := 0
		for _, o := range ops {
			if !o.closed && o.behaviour != 0 {
				live++
				// context of a live channel must not be cancelled yet
				r := get(o.id)
				if o.behaviour == 1 && r.cancelled.Load() && !connDown {
					ev.Violation(rt, c20, "handlers:context-cancelled-early", kase, "handler context of channel %d was cancelled although neither side ended the channel and the connection is up", o.id)
				}
			}
		}
		if live > 0 {
			interesting = true
			kase.Frames = append(kase.Frames, fmt.Sprintf("drop connection with %d live handlers", live))
		}
		peer.Close()
		deadline = time.Now().Add(boundArrive())
		for _, o := range ops {
			r := get(o.id)
			for !r.exited.Load() {
				if time.Now().After(deadline) {
					ev.Violation(rt, c20, "handlers:context-not-cancelled", kase, "handler of channel %d (behaviour %d, closed-by-peer=%v) still running %v after its channel ended / the connection was lost", o.id, o.behaviour, o.closed, boundArrive())
				}
				time.Sleep(200 * time.Microsecond)
			}
			if c := r.calls.Load(); c != 1 {
				ev.Violation(rt, c20, "handlers:not-exactly-once", kase, "channel id %d: handler invoked %d times", o.id, c)
			}
			if o.behaviour != 0 && !r.cancelled.Load() {
				ev.Violation(rt, c20, "handlers:context-not-cancelled", kase, "handler context of channel %d was not cancelled after the channel ended", o.id)
			}
		}
		if _, ok := recs.Load(uint32(0xfffffff0)); ok && dupAt < 0 {
			ev.Violation(rt, c20, "handlers:spurious", kase, "a handler was started for a channel that delivered no first message")
		}
		if p := libraryPanicText(log); p != "" {
			ev.Violation(rt, c20, "handlers:library-panic", kase, "%s", p)
		}
		ev.Case(c20, ev.Hash("H", fmt.Sprint(kase.Frames)), interesting, fmt.Sprintf("handlers:interesting=%v", interesting))
		if ev.WantSample(c20) {
			ev.Sample(c20, kase)
		}
	})
	_ = gen.KBool
}
