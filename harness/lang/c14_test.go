package lang

// C14 — compiler output always compiles; invalid schemas are rejected cleanly.

import (
	"fmt"
	"os"
	"sort"
	"strings"
	"testing"

	"pgregory.net/rapid"

	"verifharness/ev"
	"verifharness/gen"
	"verifharness/schema"
)

const c14 = "C14"

type c14case struct {
	Sources  string `json:"schema_sources"`
	Mutation string `json:"mutation,omitempty"`
	Output   string `json:"tool_output,omitempty"`
}

func clipOut(s string) string {
	if len(s) > 2500 {
		return s[:2500] + "…"
	}
	return s
}

// compileSet generates every package of the set in dependency order and go-builds the output.
// It returns "" or a failure key + message.
func compileSet(ws *Workspace, set *schema.Set, st schema.Style) (key, msg, out string) {
	for _, p := range set.Pkgs {
		if err := ws.WritePackage(p, st); err != nil {
			return "infra", err.Error(), ""
		}
	}
	var ids []string
	for _, p := range set.Pkgs {
		r := ws.Generate(p.ID, "")
		switch {
		case r.Exit == -2:
			return "infra", r.Out, ""
		case r.TimedOut:
			return "compiler-hangs", fmt.Sprintf("spec generate %s did not finish within 30 s", p.ID), r.Out
		case r.Panic:
			return "compiler-panics", fmt.Sprintf("spec generate %s panicked", p.ID), r.Out
		case r.Exit != 0:
			return "valid-schema-rejected", fmt.Sprintf("spec generate %s exited with %d", p.ID, r.Exit), r.Out
		}
		ids = append(ids, p.ID)
	}
	if o, ok := ws.GoBuild(ids...); !ok {
		return "accepted-output-does-not-compile", "go build of the generated code failed", o
	}
	return "", "", ""
}

func TestC14_ValidSchemasCompile(t *testing.T) {
	ev.Rule(c14, "valid schema sets from the grammar-directed semantic generator (1..3 packages with imports and aliases, 1..2 files each, enums, nested structs, messages with every field kind, lists, keyword names, tags to 65535, services with every method shape and subservices), rendered with random trivia, run through the real `spec generate` binary built from the working tree, then `go build` of the output; oracle: exit 0, no panic trace, terminates within 30 s, output compiles; non-trivial = >=2 definitions and >=1 of {list, struct, enum, import, keyword name, tag>255, service}; distinct by source hash")
	ev.CheckScaled(t, c14, 1, 1, func(rt *rapid.T) {
		s := gen.RapidSrc{T: rt}
		set, feats := schema.GenSet(s, "vmod")
		ws, err := NewWorkspace("vmod")
		if err != nil {
			ev.InfraSkip(rt, c14, "%v", err)
		}
		defer ws.Remove()
		key, msg, out := compileSet(ws, set, schema.Style{S: s})
		if key == "infra" {
			ev.InfraSkip(rt, c14, "%s", msg)
		}
		if key != "" {
			ev.Violation(rt, c14, key, c14case{Sources: setSources(set), Output: clipOut(out)}, "%s", msg)
		}
		nd := 0
		for _, p := range set.Pkgs {
			for _, f := range p.Files {
				nd += len(f.Defs)
			}
		}
		var ls []string
		for f := range feats {
			ls = append(ls, "feature:"+f)
		}
		ev.Case(c14, ev.Hash(setSources(set)), nd >= 2 && len(feats) > 0, ls...)
		if ev.WantSample(c14) {
			ev.Sample(c14, c14case{Sources: setSources(set)})
		}
	})
	_ = strings.TrimSpace
}

// runMutant compiles a mutated set and classifies the outcome.
// outcome: "rejected-named", "rejected-unnamed", "accepted-compiles", "accepted-gobuild-fails", "panic", "hang", "lex-exit0"
func runMutant(ws *Workspace, set *schema.Set, m *schema.Mutation) (outcome, out string) {
	for _, p := range set.Pkgs {
		if err := ws.WritePackage(p, schema.Style{}); err != nil {
			return "infra", err.Error()
		}
	}
	var ids []string
	var all strings.Builder
	for pi, p := range set.Pkgs {
		if len(p.Files) == 0 {
			continue // the empty package of import-empty-package
		}
		r := ws.Generate(p.ID, "")
		all.WriteString(r.Out)
		switch {
		case r.Exit == -2:
			return "infra", r.Out
		case r.TimedOut:
			return "hang", r.Out
		case r.Panic:
			return "panic", r.Out
		case r.Exit != 0:
			if pi < m.Pkg && !m.LexError {
				// an earlier, unmutated package failed: only legitimate for cycles / empty imports
				_ = pi
			}
			if len(m.Names) == 0 {
				return "rejected-named", r.Out
			}
			for _, n := range m.Names {
				if strings.Contains(r.Out, n) {
					return "rejected-named", r.Out
				}
			}
			return "rejected-unnamed", r.Out
		}
		ids = append(ids, p.ID)
	}
	if m.LexError {
		return "lex-exit0", all.String()
	}
	if o, ok := ws.GoBuild(ids...); !ok {
		return "accepted-gobuild-fails", o
	}
	return "accepted-compiles", all.String()
}

func TestC14_SingleRuleMutants(t *testing.T) {
	ev.Rule(c14, "single-rule mutants: for each generated valid base set every one of 42 operators (one per language rule of the statement: duplicate names/tags/enum numbers, zero and out-of-range tags and enum values, missing zero value, unknown types and import aliases, service-typed fields/elements/struct fields, non-value and self/mutually containing struct fields, non-message channel types, scalar single input/output, missing/circular/empty/duplicate imports, collision with a generated request name, duplicate methods, lexical errors, plus reject-or-compile operators: lists of any/message, empty struct, fields named clone/unwrap) is applied at a drawn applicable site and run through the real compiler; oracle: never a panic or hang; a rule-breaking mutant must exit non-zero with an error message naming the mutated element; anything accepted must `go build`; a lexical error must not exit 0; non-trivial = every mutant; distinct by (operator, source hash)")
	ev.CheckScaled(t, c14, 1, 4, func(rt *rapid.T) {
		s := gen.RapidSrc{T: rt}
		var base *schema.Set
		for try := 0; ; try++ {
			b, feats := schema.GenSet(s, "vmod")
			if (feats["service"] && feats["struct"] && feats["enum"]) || try > 6 {
				base = b
				break
			}
		}
		ws, err := NewWorkspace("vmod")
		if err != nil {
			ev.InfraSkip(rt, c14, "%v", err)
		}
		defer ws.Remove()
		for _, op := range schema.Operators {
			set, m, ok := schema.Mutate(s, base, op)
			if !ok {
				ev.Label(c14, "operator-not-applicable:"+op, 1)
				continue
			}
			excluded := false
			for _, oc := range []string{"accepted-compiles", "accepted-gobuild-fails", "rejected-unnamed", "lex-exit0"} {
				if ev.Known(c14, op+":"+oc) {
					excluded = true
				}
			}
			if excluded {
				ev.Label(c14, "operator-excluded-known-finding:"+op, 1)
				continue
			}
			outcome, out := runMutant(ws, set, m)
			kase := c14case{Sources: setSources(set), Mutation: op + ": " + m.Desc, Output: clipOut(out)}
			bad := ""
			switch outcome {
			case "infra":
				ev.InfraSkip(rt, c14, "%s", out)
			case "panic":
				bad = "the compiler panicked"
			case "hang":
				bad = "the compiler did not terminate within 30 s"
			case "lex-exit0":
				bad = "the tool exited 0 although the source has a lexical error"
			case "accepted-gobuild-fails":
				bad = "the schema was accepted but the generated code does not compile"
			case "accepted-compiles":
				if m.MustReject {
					bad = "a schema that breaks the rule was accepted"
				}
			case "rejected-unnamed":
				if m.MustReject {
					bad = fmt.Sprintf("rejected, but the error does not name the offending element (expected one of %v)", m.Names)
				}
			}
			if bad != "" {
				ev.Violation(rt, c14, op+":"+outcome, kase, "%s: %s [%s]", op, bad, m.Desc)
			}
			ev.Case(c14, ev.Hash(op, setSources(set)), true, "operator:"+op, "outcome:"+outcome)
		}
		if ev.WantSample(c14) {
			ev.Sample(c14, c14case{Sources: setSources(base), Mutation: "base set for all operators"})
		}
	})
	for _, op := range schema.Operators {
		if !knownOp(op) {
			ev.Require(c14, "operator:"+op)
		}
	}
}

func knownOp(op string) bool {
	for _, oc := range []string{"accepted-compiles", "accepted-gobuild-fails", "rejected-unnamed", "lex-exit0"} {
		if ev.Known(c14, op+":"+oc) {
			return true
		}
	}
	return false
}

// TestC14_Survey prints the operator x outcome matrix (development aid; VERIF_SURVEY=1).
func TestC14_Survey(t *testing.T) {
	if os.Getenv("VERIF_SURVEY") == "" {
		t.Skip("development aid")
	}
	counts := map[string]int{}
	example := map[string]string{}
	for seed := uint64(1); seed <= 6; seed++ {
		s := &gen.PRNG{S: seed * 7919}
		var base *schema.Set
		for try := 0; ; try++ {
			b, feats := schema.GenSet(s, "vmod")
			if (feats["service"] && feats["struct"] && feats["enum"] && len(b.Pkgs) > 1) || try > 20 {
				base = b
				break
			}
		}
		ws, err := NewWorkspace("vmod")
		if err != nil {
			t.Fatal(err)
		}
		for _, op := range schema.Operators {
			set, m, ok := schema.Mutate(s, base, op)
			if !ok {
				counts[op+" n/a"]++
				continue
			}
			outcome, out := runMutant(ws, set, m)
			counts[op+" "+outcome]++
			if _, ok := example[op+" "+outcome]; !ok {
				example[op+" "+outcome] = strings.ReplaceAll(clipOut(out), "\n", " | ")
			}
		}
		ws.Remove()
	}
	var keys []string
	for k := range counts {
		keys = append(keys, k)
	}
	sort.Strings(keys)
	for _, k := range keys {
		ex := example[k]
		if len(ex) > 220 {
			ex = ex[:220]
		}
		fmt.Printf("SURVEY %-45s %d  %s\n", k, counts[k], ex)
	}
}
