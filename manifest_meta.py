"""Human-written manifest texts per property."""

HOOK_COMMITS = []

NOT_BUILT_REASON = {}

META = {}

META["C10"] = dict(
    engine="codec",
    design_ref="DESIGN.md 3/C10",
    technique="property-based testing: exhaustive enumeration (8/16-bit, 32-bit in thorough) + edge lists + rapid random values against an inverse/representability oracle",
    level_text="Exploration with exhaustive sub-spaces: every bool/byte/int16/uint16 value through every stored-width x read-width pair is enumerated; thorough enumerates all 2^32 int32/uint32/float32 values; 64-bit and float64 are covered on all exponent/varint/zig-zag edges plus random values. The oracle (decode(encode(v)) == v bit-exactly, sizes agree, cross-width read returns v iff representable else error) is independent of the implementation.",
    level_note="Trusts Go's float32(v) conversion as the definition of correct rounding (cross-checked against math/big in a self-test). 64-bit domains are sampled, not enumerated.",
)

META["C01"] = dict(
    engine="codec",
    design_ref="DESIGN.md 3/C01",
    technique="property-based testing: rapid tree/program generator with boundary knobs + bounded-exhaustive enumeration (<=3 nodes x styles) + deterministic boundary sweep; round-trip oracle through every public accessor plus an independent reference decoder",
    level_text="Exploration with an exhaustive sub-space: all trees of <=3 nodes over a 31-value/8-tag boundary alphabet times every write-style combination are enumerated (~4.9e5 programs); every compact/big boundary named in the statement is constructed on both sides by the sweep (the driver fails the check if a class has zero hits); beyond that rapid-generated trees (depth to 22, 300 fields, 64 KiB payloads, Any/Copy/Merge/Clone, 6 root constructors). Two-directional oracle: every written field/element found with its value, no other tag present, absent tags read as zero, parser consumes exactly the bytes; an independent decoder must read the same tree.",
    level_note="Sampling beyond the enumerated space; struct bodies are opaque scalar sequences; trusts harness/refcodec as second reader (cross-checked against the library on every case).",
)

META["C08"] = dict(
    engine="codec",
    design_ref="DESIGN.md 3/C08",
    technique="property-based differential testing against an independently written reference encoder/decoder, metamorphic history-independence relation (fresh vs reset vs failed-then-reset vs pooled vs dirty buffer), frozen golden corpus and hand-written literal layouts",
    level_text="Exploration: library bytes are compared byte-for-byte with harness/refcodec for every generated program (effective write order tracked through Copy/Merge), reference-encoded bytes are read back through the library, the same program is re-run under five writer/buffer histories and must give identical bytes, and 1558 golden (tree, bytes) pairs frozen at the pinned commit plus 32 hand-derived literals pin the layout against an error shared by library and reference.",
    level_note="The reference codec is the trusted statement of the format (pinned by literals + golden corpus). Pool behaviour under concurrency is C18's subject, not this check's.",
)

META["C02"] = dict(
    engine="codec",
    design_ref="DESIGN.md 3/C02",
    technique="fuzzing/property-based testing: exhaustive short inputs, structure-aware mutation of valid encodings (every structural byte), hand-built lying tables, all evaluated through a total accessor walker at two guard-page placements; oracle = no panic/fault, 0<=n<=len, views inside input",
    level_text="Exploration with exhaustive sub-spaces: every byte string of length <=2 (and 3 restricted in quick / all 2^24 in thorough) and ~8e5 structure-aware mutants per quick run go through ~60 public read entry points plus a bounded walker over every accessor of whatever they return. Inputs sit against PROT_NONE pages with SetPanicOnFault so a stray unsafe read becomes a recorded failure. The oracle states exactly the property: returns normally, size within the input when no error, returned data inside the input.",
    level_note="Time/complexity of parsing hostile input is not asserted. Generated struct decoders are covered when the lang engine's kitchen-sink package is available. Sampling beyond the enumerated lengths.",
)

META["C13"] = dict(
    engine="codec",
    design_ref="DESIGN.md 3/C13",
    technique="property-based testing: agreement relations between ParseValue / DecodeTypeSize / OpenValue(+Err) / re-parse, and a metamorphic prefix relation (decode(p||v) == decode(v) for 24 decoders) over accepted inputs obtained by structure-aware mutation and exhaustive short strings",
    level_text="Exploration with an exhaustive sub-space (all strings of <=2 bytes and marker-alphabet strings of 3-4 bytes): every input the recursive parser accepts must get the same type and size from the probe and the opener, be a fixed point of re-parsing, have every visited field/element re-readable without error, and decode identically under 18 adversarial prefixes (varint-continuation lookalikes) plus a drawn prefix.",
    level_note="Only accepted inputs are in the domain (acceptance rate of mutants is reported: ~70%). Struct members are not visited by the parser and are not asserted.",
)

META["C12"] = dict(
    engine="codec",
    design_ref="DESIGN.md 3/C12",
    technique="stateful property-based testing (rapid-drawn call sequences) plus bounded-exhaustive enumeration of all call sequences up to length 4 (5 in thorough) over a 30-action alphabet; invariants checked after every step",
    level_text="Exploration with an exhaustive sub-space: every sequence of <=4 calls (8.4e5 programs) and rapid sequences of up to 30 calls over an owned writer and every handle derived from it, including stale copies and detached variables. After every call: no panic, the first error is what every reaching call and Err() report, a root Build that returns nil yields bytes that parse completely and whose nested data is readable; at the end Reset followed by a known-legal program must give the reference bytes and Free (twice) must be safe.",
    level_note="Asserts only what the statement claims (no expectation about which misuse is detected). Detached-handle reading decision documented in DESIGN.md C12.",
)

META["C16"] = dict(
    engine="codec+lang",
    design_ref="DESIGN.md 3/C16",
    technique="property-based testing of a two-version relation: rapid-generated field set A and edit sequence (add/remove/rename/reorder) giving reader view A'; read-under-A' and merge-through-A'-writer oracles over the dynamic tag API",
    level_text="Exploration (dynamic layer): for generated messages and edit sequences, fields common to both versions read back unchanged, fields only in the data are ignored, fields only in the reader read as the declared kind's zero with presence false, and Copy/Merge through a writer that pre-writes A'-only and overriding fields preserves every other field byte-for-byte (also across the compact/big table switch when an added tag exceeds 255).",
    level_note="Two layers: the dynamic tag API (volume) and generated code of two compiled schema versions (fidelity: va writer -> vb reader, absent fields read as zero, merge through a vb writer read back under va). Kind changes of a surviving tag and reuse of a removed tag are outside the property.",
)

META["C17"] = dict(
    engine="codec",
    design_ref="DESIGN.md 3/C17",
    technique="property-based testing with the runtime allocation counter as oracle: testing.AllocsPerRun over rapid-generated message shapes (read walk, pooled write, owned-writer+Reset write), GC disabled during measurement",
    level_text="Exploration: per generated shape (field counts to 300, depth to 22, big tables, 64 KiB payloads) the read walk (ParseMessage + every typed accessor, Field/FieldAt/TagAt/FieldRaw, List.Get, typed list wrappers, nested messages, struct members) and both steady-state write paths must report exactly 0 allocations per run; loops contain only library calls and preallocated inputs, and each write is also compared with the reference bytes so that a vacuous loop cannot pass.",
    level_note="Allocation behaviour is a property of compiler+code; measured with go1.24.0 as used by the repository. Error paths and documented-to-allocate accessors are excluded.",
)

META["C18"] = dict(
    engine="codec+net",
    design_ref="DESIGN.md 3/C18",
    technique="property-based differential testing: rapid-generated job sets run concurrently on 2..32 goroutines vs. their sequential result; thorough tier under the Go race detector with reports attributed by stack",
    level_text="Exploration: concurrent encode/decode jobs through every pooled path (auto-released writers, pooled writers that fail midway or are abandoned, owned writers failing then freed) must produce exactly the bytes they produce alone and read back correctly; the thorough tier rebuilds with -race and treats any report with a frame inside the module as a violation.",
    level_note="Interleavings are sampled by the Go scheduler. The net part runs independent delivery scenarios (different windows) and RPC plans concurrently so that channel states, handlers and call states are recycled across connections, each held to its sequential oracle, plus server start/stop cycles; a data race is only seen if it occurs in an execution.",
)

META["C03"] = dict(
    engine="net",
    design_ref="DESIGN.md 3/C03",
    technique="property-based testing over real mpx server/clients on loopback: rapid-generated configurations and per-channel scripts, self-describing PRF payloads, prefix/complete-sequence oracle per channel and direction; a second generator puts 2..4 concurrent sender goroutines on one channel (first Sends of a fresh channel, Sends racing SendAndClose); seeded yields at the library's verif-tagged schedule points widen the race windows",
    level_text="Exploration: generated configurations (windows 1 byte..16 MiB, write queue and buffers down to 16 bytes, compression, 1..3 connections, GOMAXPROCS 1/2/16) with up to 24 concurrent channels whose scripts cover both directions at once, payloads on opening and closing frames, closes by SendAndClose/Free/handler return and early ends. Every received message must be exactly the i-th message sent on that channel and direction; the sequence must be complete whenever the receiver read to the end status without ending the channel itself and the sender had finished; no connection may close and no library panic may be logged. Shared-channel layer: per lane the delivered messages are seq 0,1,2.. with exact bytes, every Send that returned OK is delivered before the end status, the closing payload arrives last. Readers use the canonical blocking Receive with the handler's channel context.",
    level_note="Interleavings are sampled by the Go scheduler plus generated yields, GOMAXPROCS and a drawn perturbation plan (seed, level, point set) executed through mpx.VerifSetYieldHook at ten schedule points; they are not enumerated. Completion uses a 60 s bound per case.",
)

META["C07"] = dict(
    engine="net",
    design_ref="DESIGN.md 3/C07",
    technique="model-based property testing: bounded-exhaustive exploration of a reference flow-control model (all interleavings, W<=16/40) plus rapid-generated conformance scripts driving the real implementation as sender and as receiver against a scripted wire-level peer, and end-to-end liveness runs",
    level_text="Exploration with an exhaustive model layer: the stated admission/acknowledgement rules are explored over every window 1..16 (40 in thorough), every size sequence over the relative alphabet and every interleaving, checking the outstanding-bytes bound and absence of stuck states; the implementation is then held to the model frame by frame: which Send is admitted or blocks, after which scripted update it is released, that closing payloads ignore the window, that cancel/peer-close release a blocked Send, and (through a FIFO fence on a second channel) exactly when and with what delta the receiver acknowledges.",
    level_note="The model is written from the property statement; conformance uses a 60 ms observation for 'must block' (miss-only direction) and a 10 s bound for 'must happen'. Real-concurrency wake-up races are sampled by the end-to-end layer, not enumerated.",
)

META["C06"] = dict(
    engine="net",
    design_ref="DESIGN.md 3/C06",
    technique="property-based testing with generated multi-channel histories on a real connection: witness channels with complete-delivery oracles run while many victim channels are ended in generated ways with traffic in flight; a stream-density variant (few channels per connection, peer streaming through a large window during the whole end sequence); seeded yields at the library's verif-tagged schedule points (lookup->acquire, load->increment, close dequeued->freed); plus scripted stale-frame sequences from a wire-level peer",
    level_text="Exploration: per case 2..4 witness channels carry verified traffic while 8..120 victim channels are ended by Free, SendAndClose, handler return, handler error or handler panic at drawn points while their peer is still sending; the connection must stay open and usable, witnesses complete and uncorrupted, and the log free of library panics and connection-level errors. A wire-level peer additionally sends data/window/close frames (single and batched, extreme deltas) for ended and unknown channel ids to a real server and a real client, after which a fresh channel must still work.",
    level_note="Race windows are widened by a drawn perturbation plan executed through mpx.VerifSetYieldHook and otherwise hit statistically (the lookup/acquire race this property is about reproduces within seconds when the repair is reverted); no schedule enumeration.",
)

META["C11"] = dict(
    engine="net",
    design_ref="DESIGN.md 3/C11",
    technique="fuzzing / property-based testing with a scripted raw TCP peer: generated handshake variations and grammar-mutated post-handshake frame sequences against a real server, with a well-behaved real client on a second connection as the confinement oracle",
    level_text="Exploration: 16 handshake variations (each required to occur; version lists drawn from 1..9, 11.., 0, negative and extreme values, with and without the one existing version) followed by marked channel opens, and post-handshake scripts of up to 25 frames with unknown codes, missing ids, nested batches, duplicate ids, extreme window deltas, structurally corrupted encodings, truncated and oversized frames and open bursts. Oracle: no handler ever runs for a marker sent on a connection whose handshake did not complete with the protocol line and a common version; a violating or refused connection is closed; the server keeps running and a healthy client on another connection keeps echoing correctly with its connection open.",
    level_note="Handler absence is checked after the socket closes (or after a grace period for the keep-waiting variants: miss-only direction). Process death is attributed by the driver to the journaled case.",
)

META["C20"] = dict(
    engine="net",
    design_ref="DESIGN.md 3/C20",
    technique="property-based testing of exactly-once counters: generated registration/unsubscription races against connection shutdown on real client- and server-side connection objects, and generated open/close frame scripts from a wire-level peer with per-id handler invocation logs",
    level_text="Exploration: up to 8 goroutines register and unsubscribe close/disconnect listeners while the connection is shut down by the client, the server side or the socket at a drawn moment; every registration's outcome (ok flag, unsubscription, call count, closed flag seen inside the listener) is checked after quiescence. A wire-level peer opens channels by single frames, open+close batches, payload-less opens and duplicate ids with handlers that return, block on their context or read to the end; each accepted open must get exactly one handler whose context is live while the channel is live and cancelled after it ends or the connection drops; a duplicate id must end the connection without a second handler.",
    level_note="The registration race window is hit statistically (about 0.4% of registrations on the unrepaired tree, i.e. within the first few cases); no schedule enumeration.",
)

META["C04"] = dict(
    engine="net",
    design_ref="DESIGN.md 3/C04",
    technique="property-based testing of call histories against a sequential specification keyed by call id: rapid-generated concurrent call plans (all five call shapes) over a real rpc client/server, plus scripted malformed replies from a wire-level server",
    level_text="Exploration: plans of up to 64 concurrent unary, oneway, client-streaming, server-streaming and bidirectional calls over 1..3 shared connections; each handler's result bytes (self-describing per call id), status code (every standard code and application codes) and message (unicode, to 300 bytes), panics and early responses are part of the plan, and every caller must observe exactly its own call's outcome, streamed messages in order before the end marker, and the handler log must show each id exactly once. A scripted raw server answers with garbage, corrupted, status-less, mistyped or empty replies, which must never be observed as OK.",
    level_note="Interleavings are sampled. Result bytes are valid spec values (the response's any-field is copied raw by design).",
)

META["C09"] = dict(
    engine="net",
    design_ref="DESIGN.md 3/C09",
    technique="fault-injection testing with enumerated crash points: recorded sessions re-run through a counting TCP proxy that cuts the connection after exactly k bytes in either direction (FIN, RST, half-close, stall-then-RST), plus rapid-generated fault-then-recover sequences; invariants over every call result, context, handler, log and goroutine",
    level_text="Fault enumeration: five sessions (raw mpx echo, window-blocked sender, compressed 30 KB frames, unary RPC, bidirectional streaming RPC on an auto-connect client) are cut at every byte offset of both directions for short sessions and at handshake bytes, every 7th offset and the tail for long ones (all offsets in thorough), with four fault kinds; about 13 000 faulted runs per quick run. After each: every call returned within 10 s, none returned OK without the peer having done the work (self-describing payloads/results), no partial frame delivered, contexts cancelled, handlers released, no library panic, no per-connection goroutine left, and the same client completes the session again once the path is healed.",
    level_note="Black-hole faults are outside the stated failure model (no heartbeat in the protocol). Bounds are generous constants measured from the injected FIN/RST.",
)

META["C19"] = dict(
    engine="net",
    design_ref="DESIGN.md 3/C19",
    technique="stateful property-based testing (rapid-generated action sequences with invariants at quiescent points) over a real client behind a counting/refusing proxy, plus exhaustive enumeration of the back-off function through a build-tagged export and observed dial timestamps",
    level_text="Exploration with an exhaustive sub-space: the reconnect back-off function is enumerated for every attempt 2..100000 and extreme attempt numbers (range 25 ms..1 s, never decreasing) and confirmed by dial timestamps against a refusing address; generated histories of open/free/burst/kill/unreachable/reachable/latency/Close actions on on-demand and auto-connect clients (MaxConns 1..4, channel targets 1..8) must keep exactly one of Connected/Disconnected set, Connected usable, the proxy-side connection count within MaxConns, Close idempotent and terminal with no connection left or reappearing, and recovery (next call / by itself) once the server is reachable again.",
    level_note="Interleavings of concurrent calls with callbacks are sampled. Hook: mpx.VerifReconnectTimeout (build tag verif, add-only).",
)
HOOK_COMMITS.append("384b6fa")

META["C15"] = dict(
    engine="lang",
    design_ref="DESIGN.md 3/C15",
    technique="property-based round trip (print -> parse -> compare) over grammar-directed syntax trees rendered with random trivia, and token-level mutation fuzzing with a token-faithfulness oracle (accepted source tokens == tokens of the canonical printing of the returned tree)",
    level_text="Exploration: generated syntax trees covering every construct of the grammar (all method shapes, qualified/list types, contextual keywords and unicode identifiers as names) are rendered with random whitespace, comments and optional separators; the parser's own tree, marshalled by encoding/json, must equal the expected tree field by field. Token-level mutants (delete/duplicate/swap/replace/insert from a hostile alphabet including Float/Char/RawString tokens, non-decimal and oversized integers, unterminated literals) must never panic or yield (nil,nil), and every accepted text must re-print to exactly its own significant tokens.",
    level_note="Hook: verifhook.ParseJSON (build tag verif) = parser.Parse + encoding/json of the tree, no custom dump code.",
)
HOOK_COMMITS.append("f09a637")
HOOK_COMMITS.append("2336b91")
HOOK_COMMITS.append("8060690")

META["C14"] = dict(
    engine="lang",
    design_ref="DESIGN.md 3/C14",
    technique="grammar-directed generation of valid schema sets plus one mutation operator per language rule, all run through the real `spec generate` binary and `go build` of its output; oracle = reject-with-name or compiles",
    level_text="Exploration: generated multi-package schema sets (imports with aliases, enums, nested structs, every message field kind, lists, keyword names, tags to 65535, services with every method shape and subservices) must be accepted and their output must compile; for every base set each of 42 single-rule mutation operators (every operator is required to occur) is applied at a drawn site: the tool must never panic or hang, must exit non-zero with an error naming the mutated element when a listed rule is broken, must not exit 0 on a lexical error, and whatever it accepts must compile.",
    level_note="One site per operator and base set (sites vary across base sets). Error naming is a substring check.",
)

META["C05"] = dict(
    engine="lang",
    design_ref="DESIGN.md 3/C05",
    technique="translation validation by property-based testing: grammar-directed schema generation, real `spec generate`, and harness-emitted drivers inside each generated package that check round trip, tag/wire-type interchangeability against an independent codec, struct/enum codecs and regeneration determinism over random values",
    level_text="Translation validation over generated schema sets (programs): every accepted set is compiled by the real generator and a driver emitted into each generated package draws random values of every declared message, struct and enum (value model = the harness' value trees) and checks writer->reader identity including presence, that the generated writer's bytes carry exactly the declared tags and wire types (read by an independent decoder and compared byte-for-byte with the tag-based encoding), that bytes written by tag are read by the generated accessors, struct EncodeTo/Decode inverse with sizes, enum constants/codecs, imported and aliased types, keyword-named fields, tags to 65535; regenerating twice more must give identical files; services must type-check.",
    level_note="RPC service code is compiled but not executed here. Names satisfy the hygiene precondition of the property.",
)
