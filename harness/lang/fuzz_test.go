package lang

import (
	"testing"

	"verifharness/gen"
	"verifharness/schema"
)

// FuzzParse is the coverage-guided counterpart of TestC15_TokenMutants.
func FuzzParse(f *testing.F) {
	s := &gen.PRNG{S: 5}
	for i := 0; i < 30; i++ {
		f.Add(schema.Render(schema.SynFile(s), schema.Style{}))
	}
	for _, h := range []string{"'a' enum E { A = 0; }", "enum E { A = 0; } 1.5", "message M { a int32 0x10 }", "service S { m () (<-A, B->) C; }", "import ( x \"y\" ) options ( a = \"b\" )", "/* x", "\"x", "`r`", "enum E { A = 09; }", "message M { a int32 1 } \x00 zz", "options ( a = \"b\\q\" )"} {
		f.Add(h)
	}
	f.Fuzz(func(t *testing.T, src string) {
		if len(src) > 1<<14 {
			return
		}
		js, ok := parse(t, src, "native fuzzing")
		if ok {
			lexicallyClean(t, src, js, "native fuzzing")
			faithful(t, src, js, "native fuzzing")
		}
	})
}
