package net

import (
	"fmt"
	"sort"
	"strings"
	"sync"
	"testing"
	"time"

	"github.com/basecomplextech/baselibrary/status"
	"github.com/basecomplextech/spec/mpx"
	"pgregory.net/rapid"

	"verifharness/ev"
	"verifharness/netfx"
)

type c18outCase struct {
	Servers  int      `json:"servers"`
	Conns    int      `json:"connections_per_server"`
	Channels int      `json:"channels_per_connection"`
	Kinds    []int    `json:"outcome_kinds"`
	Failure  string   `json:"failure,omitempty"`
	Logs     []string `json:"logs,omitempty"`
}

// TestC18_HandlerOutcomes: channel handlers (pooled per channel) of several servers, each with its own
// logger, finish concurrently with drawn outcomes. Running alone, a handler that returns an error
// status is reported exactly once as a channel error on its own server's logger, a panicking handler
// exactly once as a channel panic there, the others not at all; the same must hold for all of them
// together, and nothing may be reported by another server's logger or as a panic inside the module.
func TestC18_HandlerOutcomes(t *testing.T) {
	ev.Rule(c18, "handler outcomes: 1..3 mpx servers with separate loggers, 1..2 connections each, 1..40 channels per connection opened from concurrent goroutines; each channel's handler ends with a drawn outcome {OK, End, Cancelled, Closed, error status with a unique text, injected panic with a unique text} after reading its first message; oracle (= what each handler produces alone): every error outcome is logged exactly once as 'Channel error' and every injected panic exactly once as 'Channel panic' on the logger of the server that ran it, no other channel record, no record on another server's logger, no panic raised inside the module, and every client sees its channel end; non-trivial = >=2 servers and >=1 error outcome; distinct by (shape, kinds) hash")
	ev.CheckScaled(t, c18, 1, 8, func(rt *rapid.T) {
		defer drawSched(rt).install()() // seeded yields at the library's schedule points
		ns := rapid.IntRange(1, 3).Draw(rt, "servers")
		nc := rapid.IntRange(1, 2).Draw(rt, "conns")
		nch := rapid.IntRange(1, 40).Draw(rt, "channels")
		total := ns * nc * nch
		kinds := make([]int, total)
		for i := range kinds {
			kinds[i] = rapid.IntRange(0, 7).Draw(rt, "kind") // 4..5 error, 6..7 panic (weights)
		}
		kase := &c18outCase{Servers: ns, Conns: nc, Channels: nch, Kinds: kinds}
		handler := mpx.HandleFunc(func(ctx mpx.Context, ch mpx.Channel) status.Status {
			m, st := ch.Receive(ctx)
			if !st.OK() {
				return status.OK
			}
			var kind, id int
			fmt.Sscanf(string(m), "%d:%d", &kind, &id)
			switch kind {
			case 0:
				return status.OK
			case 1:
				return status.End
			case 2:
				return status.Cancelled
			case 3:
				return status.Closedf("closed-outcome-%d", id)
			case 4, 5:
				return status.Errorf("verif-outcome-%d-", id)
			default:
				panic(fmt.Sprintf("%s verif-outcome-%d-", netfx.InjectedPanicMarker, id))
			}
		})
		opts := mpx.Default()
		opts.Compression = false
		var srvs []*netfx.Server
		defer func() {
			for _, s := range srvs {
				s.Stop()
			}
		}()
		for i := 0; i < ns; i++ {
			s, err := netfx.StartServer(handler, netfx.NewLogger(), opts)
			if err != nil {
				ev.InfraSkip(rt, c18, "%v", err)
			}
			srvs = append(srvs, s)
		}
		var conns []mpx.Conn
		defer func() {
			for _, c := range conns {
				c.Close()
			}
		}()
		clog := netfx.NewLogger()
		for i := 0; i < ns*nc; i++ {
			c, st := mpx.Connect(async30(), srvs[i/nc].Addr, clog, opts)
			if !st.OK() {
				ev.InfraSkip(rt, c18, "connect: %v", st)
			}
			conns = append(conns, c)
		}
		var wg sync.WaitGroup
		er := &errs{}
		for i := 0; i < total; i++ {
			wg.Add(1)
			go func(i int) {
				defer wg.Done()
				conn := conns[i/nch]
				ch, st := conn.Channel(async30())
				if !st.OK() {
					er.addf("channel #%d: open returned %v", i, st)
					return
				}
				defer ch.Free()
				if st := ch.Send(async30(), []byte(fmt.Sprintf("%d:%d", kinds[i], i))); !st.OK() {
					er.addf("channel #%d: send returned %v", i, st)
					return
				}
				// the handler's end closes the channel
				if _, st := ch.Receive(async30()); st.OK() {
					er.addf("channel #%d: received a message from a handler that sends none", i)
				} else if st.Code == status.CodeTimeout {
					er.addf("channel #%d: not ended 30 s after its handler returned (%v)", i, st)
				}
			}(i)
		}
		if !waitGroupTimeout(&wg, hangTimeout()) {
			ev.Violation(rt, c18, "net:handler-outcomes-hang", kase, "channels did not end:\n%s", goroutineDump())
		}
		if e := er.first(); e != "" {
			kase.Failure = e
			ev.Violation(rt, c18, "net:handler-outcomes", kase, "%s", e)
		}
		// expected records per server
		check := func() string {
			for si, s := range srvs {
				want := map[string]int{}
				for i := si * nc * nch; i < (si+1)*nc*nch; i++ {
					switch {
					case kinds[i] == 4 || kinds[i] == 5:
						want[fmt.Sprintf("Channel error|verif-outcome-%d-", i)]++
					case kinds[i] >= 6:
						want[fmt.Sprintf("Channel panic|verif-outcome-%d-", i)]++
					}
				}
				got := map[string]int{}
				for _, r := range s.Log.Records() {
					if r.Panic && r.Library {
						return fmt.Sprintf("server %d: panic inside the module: %s: %s [%s]", si, r.Message, r.Status, r.Stack)
					}
					if !strings.HasPrefix(r.Message, "Channel ") {
						continue
					}
					key := r.Message + "|?" + r.Status
					if k := strings.Index(r.Status, "verif-outcome-"); k >= 0 {
						rest := r.Status[k:]
						if e := strings.Index(rest[len("verif-outcome-"):], "-"); e >= 0 {
							key = r.Message + "|" + rest[:len("verif-outcome-")+e+1]
						}
					}
					got[key]++
				}
				var keys []string
				for k := range want {
					keys = append(keys, k)
				}
				for k := range got {
					if _, ok := want[k]; !ok {
						keys = append(keys, k)
					}
				}
				sort.Strings(keys)
				for _, k := range keys {
					if got[k] != want[k] {
						return fmt.Sprintf("server %d: record %q logged %d time(s), a handler running alone produces it %d time(s)", si, k, got[k], want[k])
					}
				}
			}
			return ""
		}
		// a record is written before the channel is freed, i.e. before the client saw the channel end;
		// re-check briefly all the same so that lateness alone is never reported
		problem := check()
		for dl := time.Now().Add(boundArrive()); problem != "" && strings.Contains(problem, "logged 0 time") && time.Now().Before(dl); {
			time.Sleep(5 * time.Millisecond)
			problem = check()
		}
		if problem != "" {
			kase.Failure = problem
			for si, s := range srvs {
				for _, r := range s.Log.Records() {
					if len(kase.Logs) < 20 {
						kase.Logs = append(kase.Logs, fmt.Sprintf("server %d: %s: %s", si, r.Message, r.Status))
					}
				}
			}
			ev.Violation(rt, c18, "net:handler-outcome-differs", kase, "%s", problem)
		}
		nerr := 0
		for _, k := range kinds {
			if k == 4 || k == 5 {
				nerr++
			}
		}
		ev.Case(c18, ev.Hash("outcomes", ns, nc, nch, fmt.Sprint(kinds)), ns >= 2 && nerr >= 1, "net:handler-outcomes", fmt.Sprintf("net:outcome-servers=%d", ns))
		if ev.WantSample(c18) {
			ev.Sample(c18, kase)
		}
	})
}
