package net

// Seeded schedule perturbation through the library's verif-tagged schedule points
// (mpx.VerifSetYieldHook): at each point the hook decides from (case seed, point, per-point
// counter) whether to do nothing, yield the processor a few times, or sleep for tens to
// hundreds of microseconds. This widens race windows that are a few nanoseconds wide in
// production (poll -> wait, lookup -> acquire, load -> increment, close queued -> state
// closed) to a size the other goroutines reliably fall into. Decisions are a pure function
// of the drawn seed and the visit number of the point, so a case replays with the same
// perturbation plan (the interleaving itself still belongs to the Go scheduler).

import (
	"sync/atomic"
	"time"

	"github.com/basecomplextech/spec/mpx"
	"pgregory.net/rapid"
)

type schedPlan struct {
	Seed   uint64 `json:"seed"`
	Level  int    `json:"level"`  // 0 off, 1 light (1/16 of visits), 2 heavy (1/4 of visits)
	Points uint32 `json:"points"` // bit mask of perturbed points (bit n = point n)
}

var schedVisits [32]atomic.Uint64
var schedHits atomic.Uint64

func mix64(x uint64) uint64 {
	x += 0x9E3779B97F4A7C15
	x = (x ^ (x >> 30)) * 0xBF58476D1CE4E5B9
	x = (x ^ (x >> 27)) * 0x94D049BB133111EB
	return x ^ (x >> 31)
}

// drawSchedFocus is drawSched with half of the active plans restricted to the given points at the heavy
// level (a test whose subject lives at particular points spends its perturbation budget there).
func drawSchedFocus(rt *rapid.T, mask uint32) schedPlan {
	p := drawSched(rt)
	if p.Level > 0 && rapid.Bool().Draw(rt, "sched-focus") {
		p.Level, p.Points = 2, mask
	}
	return p
}

// drawSched draws a perturbation plan.
func drawSched(rt *rapid.T) schedPlan {
	p := schedPlan{Level: []int{0, 1, 1, 2}[rapid.IntRange(0, 3).Draw(rt, "sched-level")]}
	if p.Level == 0 {
		return p
	}
	p.Seed = rapid.Uint64().Draw(rt, "sched-seed")
	// either all points or a single one (a single perturbed point keeps the rest of the system fast,
	// so the other goroutines reach the widened window)
	if rapid.Bool().Draw(rt, "sched-all") {
		p.Points = 0xffffffff
	} else {
		p.Points = 1 << uint(rapid.IntRange(1, 19).Draw(rt, "sched-point"))
	}
	return p
}

// The hook itself is installed once for the whole test binary; a case activates its plan by
// publishing it, and may additionally set a trap: a function that runs (once) inside the library
// goroutine that reaches a given point, which lets a case perform an action exactly inside a window
// (e.g. Close while a connect routine is between "dial returned" and "connection registered").
var (
	schedCurrent atomic.Pointer[schedPlan]
	schedTrap    atomic.Pointer[trap]
)

type trap struct {
	point int
	fired atomic.Bool
	fn    func()
}

func init() { mpx.VerifSetYieldHook(schedHook) }

func schedHook(point int) {
	if tr := schedTrap.Load(); tr != nil && tr.point == point && tr.fired.CompareAndSwap(false, true) {
		tr.fn()
		return
	}
	p := schedCurrent.Load()
	if p == nil || point < 0 || point >= len(schedVisits) || p.Points&(1<<uint(point)) == 0 {
		return
	}
	n := schedVisits[point].Add(1)
	h := mix64(p.Seed ^ uint64(point)<<56 ^ n)
	den := uint64(16)
	if p.Level == 2 {
		den = 4
	}
	if h%den != 0 {
		return
	}
	schedHits.Add(1)
	switch (h >> 8) % 4 {
	case 0, 1:
		for k := uint64(0); k <= (h>>16)%4; k++ {
			runtimeGosched()
		}
	case 2:
		time.Sleep(time.Duration(20+(h>>16)%80) * time.Microsecond)
	default:
		time.Sleep(time.Duration(100+(h>>16)%400) * time.Microsecond)
	}
}

// install activates the plan until the returned function is called.
func (p schedPlan) install() (remove func()) {
	if p.Level == 0 {
		return func() {}
	}
	for i := range schedVisits {
		schedVisits[i].Store(0)
	}
	pp := p
	schedCurrent.Store(&pp)
	return func() { schedCurrent.Store(nil) }
}

// setTrap arms fn to run once in the library goroutine that next reaches point; the returned
// function disarms it and reports whether it fired.
func setTrap(point int, fn func()) (disarm func() bool) {
	tr := &trap{point: point, fn: fn}
	schedTrap.Store(tr)
	return func() bool {
		schedTrap.CompareAndSwap(tr, nil)
		return tr.fired.Load()
	}
}
