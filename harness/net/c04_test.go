package net

// C04 — every RPC call gets its own handler run, result and status.

import (
	"bytes"
	"fmt"
	"sync"
	"sync/atomic"
	"testing"
	"time"

	"github.com/basecomplextech/baselibrary/async"
	"github.com/basecomplextech/baselibrary/ref"
	"github.com/basecomplextech/baselibrary/status"
	spec "github.com/basecomplextech/spec"
	"github.com/basecomplextech/spec/mpx"
	"github.com/basecomplextech/spec/rpc"
	"pgregory.net/rapid"

	"verifharness/ev"
	"verifharness/gen"
	"verifharness/netfx"
	"verifharness/refcodec"
)

const c04 = "C04"

const (
	kindUnary = iota
	kindOneway
	kindClientStream
	kindServerStream
	kindBidi
)

var kindNames = []string{"unary", "oneway", "client-stream", "server-stream", "bidi"}

type call struct {
	ID         uint32 `json:"id"`
	Kind       int    `json:"kind"`
	Code       string `json:"status_code"`
	Message    string `json:"status_message"`
	ResultSize int    `json:"result_size"`
	Up         int    `json:"client_stream_messages"`
	Down       int    `json:"server_stream_messages"`
	Panic      bool   `json:"handler_panics"`
	Early      bool   `json:"respond_before_draining"`
	MsgSize    int    `json:"stream_message_size"`

	// observations
	handled  atomic.Int32
	srvUp    atomic.Int32
	srvErr   atomic.Value
	observed string
}

func (c *call) resultBytes() []byte {
	if c.ResultSize == 0 {
		return nil
	}
	return refcodec.Encode(nil, gen.Bytes(netfx.Make(netfx.Header{Chan: c.ID, Dir: 1, Seq: 0xffff}, c.ResultSize)))
}

var c04calls sync.Map

var stdCodes = []string{"ok", "error", "external_error", "not_found", "forbidden", "unauthorized", "closed", "cancelled", "rollback", "timeout", "unavailable", "unsupported", "end", "wait", "parse_error", "checksum_error", "rpc_error", "test"}

func buildRequest(c *call) (*rpc.Request, error) {
	w := spec.NewMessageWriter()
	w.Field(1).Uint32(c.ID)
	in, err := w.Build()
	if err != nil {
		return nil, err
	}
	req := rpc.NewRequest()
	if st := req.AddMessage("call", spec.OpenMessage(append([]byte(nil), in...))); !st.OK() {
		return nil, fmt.Errorf("%v", st)
	}
	return req, nil
}

func c04Handler() rpc.Handler {
	return rpc.HandleFunc(func(ctx rpc.Context, ch rpc.ServerChannel) (ref.R[[]byte], status.Status) {
		rq, st := ch.Request(ctx)
		if !st.OK() {
			return nil, st
		}
		calls := rq.Calls()
		if calls.Len() != 1 {
			return nil, status.Newf("error", "harness: %d calls in request", calls.Len())
		}
		id := calls.Get(0).Input().Uint32(1)
		v, ok := c04calls.Load(id)
		if !ok {
			return nil, status.Newf("error", "harness: unknown call id %d", id)
		}
		c := v.(*call)
		c.handled.Add(1)
		fail := func(format string, a ...any) { c.srvErr.Store(fmt.Sprintf(format, a...)) }
		if c.Panic {
			panic(fmt.Sprintf("%s call %d", netfx.InjectedPanicMarker, c.ID))
		}
		if c.Kind == kindOneway {
			return nil, rpc.SkipResponse
		}
		var wg sync.WaitGroup
		if c.Kind == kindServerStream || c.Kind == kindBidi {
			wg.Add(1)
			go func() {
				defer wg.Done()
				for i := 0; i < c.Down; i++ {
					if st := ch.Send(ctx, netfx.Make(netfx.Header{Chan: c.ID, Dir: 1, Seq: uint32(i)}, c.MsgSize)); !st.OK() {
						return
					}
				}
				ch.SendEnd(ctx)
			}()
		}
		if (c.Kind == kindClientStream || c.Kind == kindBidi) && !c.Early {
			for i := 0; ; i++ {
				m, st := ch.Receive(ctx)
				if st.Code == status.CodeEnd {
					break
				}
				if !st.OK() {
					fail("server Receive: %v", st)
					break
				}
				if err := netfx.Verify(m, netfx.Header{Chan: c.ID, Dir: 0, Seq: uint32(i)}, c.MsgSize); err != nil {
					fail("server received wrong stream message %d: %v", i, err)
				}
				c.srvUp.Add(1)
			}
		}
		wg.Wait()
		st = status.New(status.Code(c.Code), c.Message)
		return ref.NewNoop(c.resultBytes()), st
	})
}

// runCall performs one call through the client and returns a description of what the
// caller observed, or an error text when it contradicts the plan.
func runCall(cl rpc.Client, c *call) string {
	ctx := async.TimeoutContext(60 * time.Second)
	defer ctx.Free()
	req, err := buildRequest(c)
	if err != nil {
		return "harness: " + err.Error()
	}
	defer req.Free()
	p, st := req.Build()
	if !st.OK() {
		return "harness: build: " + st.String()
	}
	wantOK := c.Code == "ok" && !c.Panic
	checkResp := func(res []byte, st status.Status) string {
		if c.Panic {
			if st.OK() {
				return fmt.Sprintf("handler panicked but the caller observed OK")
			}
			return ""
		}
		if string(st.Code) != c.Code || st.Message != c.Message {
			return fmt.Sprintf("status observed %q/%q, handler returned %q/%q", st.Code, clipS(st.Message), c.Code, clipS(c.Message))
		}
		if wantOK && !bytes.Equal(res, c.resultBytes()) {
			return fmt.Sprintf("result bytes differ: got %d bytes (%s), want %d", len(res), describeResult(res), len(c.resultBytes()))
		}
		if !wantOK && len(res) != 0 {
			return fmt.Sprintf("non-OK status %q came with %d result bytes", st.Code, len(res))
		}
		return ""
	}
	switch c.Kind {
	case kindUnary:
		r, st := cl.Request(ctx, p)
		var res []byte
		if r != nil {
			res = append([]byte(nil), r.Unwrap()...)
			r.Release()
		}
		return checkResp(res, st)
	case kindOneway:
		if st := cl.RequestOneway(ctx, p); !st.OK() {
			return fmt.Sprintf("RequestOneway: %v", st)
		}
		return ""
	}
	ch, st := cl.Channel(ctx, p)
	if !st.OK() {
		return fmt.Sprintf("Channel: %v", st)
	}
	defer ch.Free()
	var sendErr string
	var wg sync.WaitGroup
	if c.Kind == kindClientStream || c.Kind == kindBidi {
		wg.Add(1)
		go func() {
			defer wg.Done()
			for i := 0; i < c.Up; i++ {
				if st := ch.Send(ctx, netfx.Make(netfx.Header{Chan: c.ID, Dir: 0, Seq: uint32(i)}, c.MsgSize)); !st.OK() {
					if !c.Early && !c.Panic {
						sendErr = fmt.Sprintf("client Send %d: %v", i, st)
					}
					return
				}
			}
			if st := ch.SendEnd(ctx); !st.OK() && !c.Early && !c.Panic {
				sendErr = fmt.Sprintf("client SendEnd: %v", st)
			}
		}()
	}
	got := 0
	if c.Kind == kindServerStream || c.Kind == kindBidi {
		for {
			m, st := ch.Receive(ctx)
			if st.Code == status.CodeEnd {
				break
			}
			if !st.OK() {
				if c.Panic {
					break
				}
				wg.Wait()
				return fmt.Sprintf("client Receive %d: %v", got, st)
			}
			if err := netfx.Verify(m, netfx.Header{Chan: c.ID, Dir: 1, Seq: uint32(got)}, c.MsgSize); err != nil {
				wg.Wait()
				return fmt.Sprintf("stream message %d: %v", got, err)
			}
			got++
		}
		if !c.Panic && got != c.Down {
			wg.Wait()
			return fmt.Sprintf("end marker after %d of %d streamed messages", got, c.Down)
		}
	}
	res, st := ch.Response(ctx)
	res = append([]byte(nil), res...)
	wg.Wait()
	if sendErr != "" {
		return sendErr
	}
	return checkResp(res, st)
}

func clipS(s string) string {
	if len(s) > 40 {
		return s[:40] + "…"
	}
	return s
}

func describeResult(res []byte) string {
	v, _, err := spec.DecodeBytes(res)
	if err != nil || len(v) < 16 {
		return fmt.Sprintf("%x", res[:min(len(res), 16)])
	}
	return netfx.Describe(v)
}

type c04case struct {
	Conns   int     `json:"max_conns"`
	Target  int     `json:"conn_channels_target"`
	Calls   []*call `json:"calls"`
	Failure string  `json:"failure,omitempty"`
}

func TestC04_CallPlans(t *testing.T) {
	ev.Rule(c04, "rapid: call plans of 1..64 concurrent calls (unary Request, RequestOneway, Channel with client-stream / server-stream / bidirectional streaming) over an rpc.Client with MaxConns 1..3 and channel target 1..8, handler behaviour carried by the plan: result = valid spec value derived from the call id (PRF payload, 0..5000 bytes), status from every standard code plus application codes, unicode messages of 0..300 bytes, handler panics, early responses; oracle keyed by call id: handler ran exactly once, caller observes exactly that call's result bytes and status code/message, streamed messages in order before the end marker, OK only if the plan's handler returned OK; non-trivial = >=4 overlapping calls with >=2 kinds, or an application code, or a panic; distinct by plan hash")
	log := netfx.NewLogger()
	opts := rpc.Default()
	srv := rpc.NewServer("127.0.0.1:0", c04Handler(), log, opts)
	if st := srv.Start(); !st.OK() {
		t.Fatalf("infrastructure: %v", st)
	}
	defer func() { <-srv.Stop() }()
	select {
	case <-srv.Listening().Wait():
	case <-time.After(10 * time.Second):
		t.Fatalf("infrastructure: server not listening")
	}
	addr := srv.Address()
	ev.Check(t, c04, func(rt *rapid.T) {
		// seeded yields at the library's schedule points, half of the active plans concentrated on the Receive loops
		// (mpx and rpc: polled empty -> wait) and the send loop's poll -> wait
		defer drawSchedFocus(rt, 1<<1|1<<2|1<<17|1<<18).install()()
		o := rpc.Default()
		o.ClientDialTimeout = 30 * time.Second // the 2 s default is exceeded on an overloaded machine; dial behaviour is C19's subject
		o.ClientMaxConns = rapid.IntRange(1, 3).Draw(rt, "maxconns")
		o.ClientConnChannels = rapid.IntRange(1, 8).Draw(rt, "target")
		o.Compression = rapid.Bool().Draw(rt, "compression")
		mode := []rpc.ClientMode{rpc.ClientMode_OnDemand, rpc.ClientMode_AutoConnect}[rapid.IntRange(0, 1).Draw(rt, "mode")]
		cl := rpc.NewClient(addr, mode, netfx.NewLogger(), o)
		defer cl.Close()
		n := rapid.IntRange(1, 64).Draw(rt, "ncalls")
		var calls []*call
		kinds := map[int]bool{}
		special := false
		for i := 0; i < n; i++ {
			c := &call{ID: chanSeq.Add(1), Kind: rapid.IntRange(0, 4).Draw(rt, "kind")}
			kinds[c.Kind] = true
			switch rapid.IntRange(0, 3).Draw(rt, "codeclass") {
			case 0, 1:
				c.Code = "ok"
			case 2:
				c.Code = stdCodes[rapid.IntRange(0, len(stdCodes)-1).Draw(rt, "std")]
			default:
				c.Code = fmt.Sprintf("app_%d", rapid.IntRange(0, 99).Draw(rt, "app"))
				special = true
			}
			c.Message = rapid.StringOfN(rapid.RuneFrom(nil, unicodeRanges...), 0, 100, 300).Draw(rt, "msg")
			if c.Code == "ok" {
				c.Message = "" // an OK status carries no message (status.OK); the client returns the canonical OK
			}
			c.ResultSize = []int{0, 1, 16, 100, 5000}[rapid.IntRange(0, 4).Draw(rt, "ressize")]
			c.Up = rapid.IntRange(0, 8).Draw(rt, "up")
			c.Down = rapid.IntRange(0, 8).Draw(rt, "down")
			// mostly small; sometimes larger than the receive queue's first block, so that a message is written
			// into a further block while the reader is between its poll and its wait
			c.MsgSize = []int{1, 16, 300, 300, 300, 5000, 70000, 200000}[rapid.IntRange(0, 7).Draw(rt, "msgsize")]
			if c.MsgSize > 5000 {
				if c.Up > 4 {
					c.Up = 4
				}
				if c.Down > 4 {
					c.Down = 4
				}
			}
			c.Panic = rapid.IntRange(0, 11).Draw(rt, "panic") == 0
			c.Early = rapid.IntRange(0, 5).Draw(rt, "early") == 0
			if c.Panic {
				special = true
			}
			calls = append(calls, c)
			c04calls.Store(c.ID, c)
		}
		defer func() {
			for _, c := range calls {
				c04calls.Delete(c.ID)
			}
		}()
		kase := &c04case{Conns: o.ClientMaxConns, Target: o.ClientConnChannels, Calls: calls}
		var wg sync.WaitGroup
		for _, c := range calls {
			wg.Add(1)
			go func(c *call) { defer wg.Done(); c.observed = runCall(cl, c) }(c)
		}
		if !waitGroupTimeout(&wg, hangTimeout()+30*time.Second) {
			ev.Violation(rt, c04, "hang", kase, "calls did not finish:\n%s", goroutineDump())
		}
		// oneway calls: the handler runs asynchronously; wait for quiescence
		deadline := time.Now().Add(boundArrive())
		for _, c := range calls {
			for c.handled.Load() == 0 && time.Now().Before(deadline) {
				time.Sleep(200 * time.Microsecond)
			}
		}
		time.Sleep(2 * time.Millisecond)
		for _, c := range calls {
			if c.observed != "" {
				kase.Failure = c.observed
				ev.Violation(rt, c04, "call-mismatch", kase, "call %d (%s, code=%q panic=%v early=%v): %s", c.ID, kindNames[c.Kind], c.Code, c.Panic, c.Early, c.observed)
			}
			if h := c.handled.Load(); h != 1 {
				ev.Violation(rt, c04, "handler-not-exactly-once", kase, "call %d (%s): handler ran %d times", c.ID, kindNames[c.Kind], h)
			}
			if v := c.srvErr.Load(); v != nil {
				ev.Violation(rt, c04, "server-stream-mismatch", kase, "call %d (%s): %v", c.ID, kindNames[c.Kind], v)
			}
			if (c.Kind == kindClientStream || c.Kind == kindBidi) && !c.Early && !c.Panic && int(c.srvUp.Load()) != c.Up {
				ev.Violation(rt, c04, "server-stream-mismatch", kase, "call %d: server received %d of %d client stream messages before the end marker", c.ID, c.srvUp.Load(), c.Up)
			}
		}
		if p := libraryPanicText(log); p != "" {
			ev.Violation(rt, c04, "library-panic", kase, "%s", p)
		}
		var hp []any
		for _, c := range calls {
			hp = append(hp, c.Kind, c.Code, c.Message, c.ResultSize, c.Up, c.Down, c.Panic, c.Early)
		}
		nt := (len(calls) >= 4 && len(kinds) >= 2) || special
		ev.Case(c04, ev.Hash(hp...), nt, fmt.Sprintf("calls>=4=%v", len(calls) >= 4), fmt.Sprintf("special=%v", special))
		if ev.WantSample(c04) {
			ev.Sample(c04, map[string]any{"max_conns": o.ClientMaxConns, "target": o.ClientConnChannels, "calls": len(calls), "first": calls[:min(3, len(calls))]})
		}
	})
}

var unicodeRanges = unicodeTables()

// justifiesOK reports whether reply, read through the codec's dynamic API (the layer
// below rpc), is a Response message whose status code is "ok"; it returns the result
// field's raw bytes. Single-byte corruptions can leave such a message (other integer
// width, unsorted table, missing terminator): the codec's leniency is not a C04 matter.
func justifiesOK(reply []byte) (bool, []byte) {
	m, n, err := spec.ParseMessage(reply)
	if err != nil || n != len(reply) {
		return false, nil
	}
	if t, err := m.Int32Err(1); err != nil || t != 2 {
		return false, nil
	}
	resp, err := m.MessageErr(3)
	if err != nil {
		return false, nil
	}
	st, err := resp.MessageErr(1)
	if err != nil {
		return false, nil
	}
	code, err := st.StringErr(1)
	if err != nil || string(code) != "ok" {
		return false, nil
	}
	return true, resp.Field(2)
}

// ---- malformed replies from a scripted raw server ----

func TestC04_MalformedReplies(t *testing.T) {
	ev.Rule(c04, "malformed-reply sub-family: an rpc.Client talks to a scripted raw wire-level server that answers a unary call with a drawn reply: garbage bytes, a structurally corrupted response, a Response without status, an unknown message type, a reply of another message kind, an empty close, or (control) a well-formed OK response; oracle: the caller observes OK only for the well-formed OK response, with exactly its result bytes; non-trivial = every malformed variant")
	ev.Check(t, c04, func(rt *rapid.T) {
		rs, err := newRawServer()
		if err != nil {
			ev.InfraSkip(rt, c04, "%v", err)
		}
		defer rs.close()
		o := rpc.Default()
		o.Compression = false
		o.ClientDialTimeout = 30 * time.Second
		cl := rpc.NewClient(rs.ln.Addr().String(), rpc.ClientMode_OnDemand, netfx.NewLogger(), o)
		defer cl.Close()
		variant := rapid.IntRange(0, 8).Draw(rt, "variant")
		result := refcodec.Encode(nil, gen.Bytes([]byte("the-result")))
		okResp := gen.Message(gen.F(1, gen.Int32(2)), gen.F(3, gen.Message(gen.F(1, gen.Message(gen.F(1, gen.String("ok")), gen.F(2, gen.String("")))), gen.F(2, gen.Bytes([]byte("the-result"))))))
		var reply []byte
		desc := ""
		wantOK := false
		switch variant {
		case 0:
			reply, desc, wantOK = refcodec.Encode(nil, okResp), "well-formed OK response (control)", true
		case 1:
			reply, desc = rapid.SliceOfN(rapid.Byte(), 1, 60).Draw(rt, "garbage"), "garbage bytes"
		case 2:
			b := refcodec.Encode(nil, okResp)
			pos := rapid.IntRange(0, len(b)-1).Draw(rt, "pos")
			old := b[pos]
			b[pos] = rapid.Byte().Draw(rt, "val")
			reply, desc = b, fmt.Sprintf("OK response with byte %d changed %#x->%#x", pos, old, b[pos])
			// a single-byte change can still leave a well-formed OK response (other integer width,
			// other payload bytes): decide with the independent decoder
			wantOK, result = justifiesOK(b)
		case 3:
			reply, desc = refcodec.Encode(nil, gen.Message(gen.F(1, gen.Int32(2)), gen.F(3, gen.Message(gen.F(2, gen.Bytes([]byte("the-result"))))))), "Response without status"
		case 4:
			reply, desc = refcodec.Encode(nil, gen.Message(gen.F(1, gen.Int32(int32(rapid.IntRange(5, 200).Draw(rt, "type")))), gen.F(3, okResp.Fields[1].V))), "unknown message type"
		case 5:
			reply, desc = refcodec.Encode(nil, gen.Message(gen.F(1, gen.Int32(1)), gen.F(2, gen.Message(gen.F(1, gen.List()))))), "a Request as reply"
		case 6:
			reply, desc = nil, "close without payload"
		case 7:
			reply, desc = refcodec.Encode(nil, gen.Message(gen.F(1, gen.Int32(2)))), "Response type without response body"
		default:
			reply, desc = refcodec.Encode(nil, gen.Message(gen.F(1, gen.Int32(2)), gen.F(3, gen.Message(gen.F(1, gen.Message(gen.F(1, gen.String("")), gen.F(2, gen.String("empty code")))))))), "status with empty code"
		}
		kase := map[string]any{"reply": desc, "reply_hex": hexClip(reply, 80)}
		done := make(chan struct{})
		var res []byte
		var st status.Status
		go func() {
			defer close(done)
			c := &call{ID: 1}
			req, _ := buildRequest(c)
			defer req.Free()
			p, _ := req.Build()
			ctx := async.TimeoutContext(20 * time.Second)
			defer ctx.Free()
			r, s := cl.Request(ctx, p)
			st = s
			if r != nil {
				res = append([]byte(nil), r.Unwrap()...)
				r.Release()
			}
		}()
		var peer *netfx.RawPeer
		select {
		case peer = <-rs.peers:
		case <-time.After(boundArrive()):
			ev.InfraSkip(rt, c04, "no raw peer")
		}
		defer peer.Close()
		f, ok := rs.next(boundArrive())
		if !ok || f.Code != netfx.CodeOpen {
			ev.InfraSkip(rt, c04, "expected open frame, got %+v", f.Code)
		}
		peer.WriteMsg(netfx.CloseMsg(f.ID, reply))
		select {
		case <-done:
		case <-time.After(boundArrive() + 15*time.Second):
			ev.Violation(rt, c04, "malformed:hang", kase, "Request did not return after a malformed reply (%s)", desc)
		}
		if wantOK {
			if variant == 0 && (!st.OK() || !bytes.Equal(res, result)) {
				ev.Violation(rt, c04, "malformed:control-failed", kase, "well-formed OK response observed as %v with %d result bytes", st, len(res))
			}
			if st.OK() && !bytes.Equal(res, result) {
				ev.Violation(rt, c04, "malformed:wrong-result", kase, "caller observed OK with result %x, the reply carries %x (%s)", res, result, desc)
			}
		} else if st.OK() {
			ev.Violation(rt, c04, "malformed:ok-from-malformed-reply", kase, "caller observed OK (result %x) for a malformed reply: %s", res, desc)
		}
		ev.Case(c04, ev.Hash("mal", variant, reply), variant != 0, fmt.Sprintf("malformed:variant=%d", variant))
	})
	_ = mpx.ProtocolLine
}
