package schema

import (
	"strconv"

	"verifharness/gen"
)

var identHeads = "abcdefghijklmnopqrstuvwxyzABCDEFGHIJKLMNOPQRSTUVWXYZ_"
var identTail = identHeads + "0123456789"

var isKeyword = map[string]bool{"any": true, "enum": true, "import": true, "message": true, "oneway": true, "options": true, "struct": true, "service": true, "subservice": true}

// Ident draws an identifier that is not a keyword.
func Ident(s gen.Src) string {
	for {
		n := 1 + s.Intn(8, "identlen")
		b := make([]byte, 0, n+2)
		b = append(b, identHeads[s.Intn(len(identHeads), "identhead")])
		for i := 1; i < n; i++ {
			b = append(b, identTail[s.Intn(len(identTail), "identtail")])
		}
		id := string(b)
		switch s.Intn(12, "identspecial") {
		case 0:
			id = []string{"enumX", "onewayz", "Message", "Any", "imports", "int32x", "structs", "service1"}[s.Intn(8, "nearkw")]
		case 1:
			id = "Ünï" + id // unicode letters are identifiers for text/scanner
		}
		if !isKeyword[id] {
			return id
		}
	}
}

// FieldName draws a field/method/enum-value name: identifier or contextual keyword.
func FieldName(s gen.Src) string {
	if s.Intn(5, "kwname") == 0 {
		return ContextualKeywords[s.Intn(len(ContextualKeywords), "kw")]
	}
	return Ident(s)
}

func intLit(s gen.Src, max int64) string {
	switch s.Intn(6, "intclass") {
	case 0:
		return "0"
	case 1:
		return strconv.FormatInt(max, 10)
	case 2:
		return []string{"1", "255", "256", "65535", "65536", "2147483647"}[s.Intn(6, "intedge")]
	}
	v := int64(s.Uint64("int") >> uint(1+s.Intn(62, "intshift")))
	if v > max {
		v = max
	}
	return strconv.FormatInt(v, 10)
}

func strLit(s gen.Src) string {
	n := s.Intn(12, "strlen")
	const alpha = "abcXYZ019_-./: @#$%^&*()[]{}<>?!~+=|,;'éж"
	rs := []rune(alpha)
	out := make([]rune, 0, n)
	for i := 0; i < n; i++ {
		if s.Intn(10, "stresc") == 0 {
			// escape sequences, kept raw by the parser; an escaped quote may be the first or last character of the value
			out = append(out, []rune([]string{`\"`, `\\`, `\n`, `\t`, `\x41`, `\u00e9`}[s.Intn(6, "strescseq")])...)
			continue
		}
		out = append(out, rs[s.Intn(len(rs), "strch")])
	}
	return string(out)
}

// SynType draws a syntactically valid type without regard to resolution.
func SynType(s gen.Src, allowList bool) Type {
	t := Type{}
	switch s.Intn(6, "typeclass") {
	case 0, 1:
		t.Name = Builtins[s.Intn(len(Builtins), "builtin")]
	case 2:
		t.Name = []string{"any", "message"}[s.Intn(2, "anymsg")]
	case 3:
		t.Pkg = Ident(s)
		t.Name = Ident(s)
	default:
		t.Name = Ident(s)
	}
	if allowList && s.Intn(4, "islist") == 0 {
		t.List = true
	}
	return t
}

func synFields(s gen.Src, max int) []Field {
	n := s.Intn(max+1, "nfields")
	var out []Field
	for i := 0; i < n; i++ {
		out = append(out, Field{Name: FieldName(s), Type: SynType(s, true), Tag: intLit(s, 1<<31-1)})
	}
	return out
}

// SynFile draws a syntax tree constrained only by the grammar.
func SynFile(s gen.Src) *File {
	f := &File{}
	if s.Intn(3, "hasimports") != 0 {
		f.HasImports = true
		n := s.Intn(4, "nimports")
		for i := 0; i < n; i++ {
			im := Import{ID: strLit(s)}
			if s.Intn(2, "alias") == 0 {
				im.Alias = Ident(s)
			}
			f.Imports = append(f.Imports, im)
		}
	}
	if s.Intn(3, "hasoptions") != 0 {
		f.HasOptions = true
		n := s.Intn(3, "noptions")
		for i := 0; i < n; i++ {
			f.Options = append(f.Options, Option{Name: Ident(s), Value: strLit(s)})
		}
	}
	nd := s.Intn(6, "ndefs")
	for i := 0; i < nd; i++ {
		d := &Def{Name: Ident(s)}
		switch s.Intn(5, "defkind") {
		case 0:
			d.Kind = DefEnum
			n := s.Intn(5, "nvalues")
			for k := 0; k < n; k++ {
				d.Values = append(d.Values, EnumValue{Name: FieldName(s), Value: intLit(s, 1<<31-1)})
			}
		case 1:
			d.Kind = DefMessage
			d.Fields = synFields(s, 6)
		case 2:
			d.Kind = DefStruct
			n := s.Intn(5, "nsfields")
			for k := 0; k < n; k++ {
				d.Fields = append(d.Fields, Field{Name: FieldName(s), Type: SynType(s, true)})
			}
		default:
			d.Kind = DefService
			if s.Intn(3, "sub") == 0 {
				d.Kind = DefSubservice
			}
			n := s.Intn(5, "nmethods")
			for k := 0; k < n; k++ {
				d.Methods = append(d.Methods, synMethod(s))
			}
		}
		f.Defs = append(f.Defs, d)
	}
	return f
}

func baseType(s gen.Src) *Type {
	t := SynType(s, false)
	return &t
}

func synMethod(s gen.Src) Method {
	m := Method{Name: FieldName(s)}
	if s.Intn(3, "inputkind") == 0 {
		m.InputType = baseType(s)
	} else {
		m.InputFields = synFields(s, 4)
	}
	switch s.Intn(5, "tail") {
	case 0: // nothing
	case 1:
		m.Oneway = true
	case 2:
		m.HasOutput = true
		if s.Intn(2, "outkind") == 0 {
			m.OutputType = baseType(s)
		} else {
			m.OutputFields = synFields(s, 3)
			if len(m.OutputFields) == 0 {
				// "()" as output is recorded as a nil list, indistinguishable from an absent
				// output in the tree: keep the generator within what the tree can express
				m.OutputFields = []Field{{Name: FieldName(s), Type: SynType(s, true), Tag: intLit(s, 65535)}}
			}
		}
	default:
		dir := s.Intn(3, "chandir")
		if dir == 0 || dir == 2 {
			t := SynType(s, true)
			m.ChanIn = &t
		}
		if dir == 1 || dir == 2 {
			t := SynType(s, true)
			m.ChanOut = &t
		}
		if s.Intn(2, "chanout") == 0 {
			m.HasOutput = true
			if s.Intn(2, "outkind") == 0 {
				m.OutputType = baseType(s)
			} else {
				m.OutputFields = []Field{{Name: FieldName(s), Type: SynType(s, true), Tag: intLit(s, 65535)}}
			}
		}
	}
	return m
}
