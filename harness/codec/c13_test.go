package codec

// C13 — parse, open and size probe agree; decoding is local to the value.

import (
	"bytes"
	"fmt"
	"math"
	"runtime/debug"
	"testing"

	spec "github.com/basecomplextech/spec"
	"pgregory.net/rapid"

	"verifharness/ev"
	"verifharness/gen"
	"verifharness/refcodec"
)

const c13 = "C13"

type c13case struct {
	Input  string `json:"input_hex"`
	Prefix string `json:"prefix_hex,omitempty"`
	Origin string `json:"origin,omitempty"`
}

// snapshot records what every decoder returns for b.
func snapshot(b []byte) []string {
	var out []string
	add := func(name string, v any, n int, err error) {
		if err != nil {
			out = append(out, name+": error")
			return
		}
		out = append(out, fmt.Sprintf("%s: %v n=%d", name, v, n))
	}
	{
		t, n, err := spec.DecodeType(b)
		add("DecodeType", t, n, err)
	}
	{
		t, n, err := spec.DecodeTypeSize(b)
		add("DecodeTypeSize", t, n, err)
	}
	{
		v, n, err := spec.DecodeBool(b)
		add("DecodeBool", v, n, err)
	}
	{
		v, n, err := spec.DecodeByte(b)
		add("DecodeByte", v, n, err)
	}
	{
		v, n, err := spec.DecodeInt16(b)
		add("DecodeInt16", v, n, err)
	}
	{
		v, n, err := spec.DecodeInt32(b)
		add("DecodeInt32", v, n, err)
	}
	{
		v, n, err := spec.DecodeInt64(b)
		add("DecodeInt64", v, n, err)
	}
	{
		v, n, err := spec.DecodeUint16(b)
		add("DecodeUint16", v, n, err)
	}
	{
		v, n, err := spec.DecodeUint32(b)
		add("DecodeUint32", v, n, err)
	}
	{
		v, n, err := spec.DecodeUint64(b)
		add("DecodeUint64", v, n, err)
	}
	{
		v, n, err := spec.DecodeFloat32(b)
		add("DecodeFloat32", math.Float32bits(v), n, err)
	}
	{
		v, n, err := spec.DecodeFloat64(b)
		add("DecodeFloat64", math.Float64bits(v), n, err)
	}
	{
		v, n, err := spec.DecodeBin64(b)
		add("DecodeBin64", v, n, err)
	}
	{
		v, n, err := spec.DecodeBin128(b)
		add("DecodeBin128", v, n, err)
	}
	{
		v, n, err := spec.DecodeBin256(b)
		add("DecodeBin256", v, n, err)
	}
	{
		v, n, err := spec.DecodeBytes(b)
		add("DecodeBytes", fmt.Sprintf("%x", []byte(v)), n, err)
	}
	{
		v, n, err := spec.DecodeString(b)
		add("DecodeString", fmt.Sprintf("%x", string(v)), n, err)
	}
	{
		v, n, err := spec.DecodeStruct(b)
		add("DecodeStruct", v, n, err)
	}
	{
		t, n, err := spec.DecodeListTable(b)
		if err == nil {
			add("DecodeListTable", fmt.Sprintf("len=%d data=%d", t.Len(), t.DataSize()), n, err)
		} else {
			add("DecodeListTable", nil, n, err)
		}
	}
	{
		t, n, err := spec.DecodeMessageTable(b)
		if err == nil {
			add("DecodeMessageTable", fmt.Sprintf("len=%d data=%d", t.Len(), t.DataSize()), n, err)
		} else {
			add("DecodeMessageTable", nil, n, err)
		}
	}
	{
		v, n, err := spec.ParseValue(b)
		add("ParseValue", fmt.Sprintf("%x", []byte(v)), n, err)
	}
	{
		v := spec.OpenValue(b)
		add("OpenValue", fmt.Sprintf("%x", []byte(v)), len(v), nil)
	}
	{
		m, n, err := spec.ParseMessage(b)
		add("ParseMessage", fmt.Sprintf("%x", m.Raw()), n, err)
	}
	{
		l, n, err := spec.ParseList(b)
		add("ParseList", fmt.Sprintf("%x", l.Raw()), n, err)
	}
	return out
}

// readable re-reads a value the parser accepted: its own typed accessor must succeed,
// and so must every nested field/element the parser visited.
func readable(v []byte, depth int) error {
	t, _, err := spec.DecodeType(v)
	if err != nil {
		return fmt.Errorf("DecodeType: %v", err)
	}
	val := spec.Value(v)
	switch t {
	case spec.TypeTrue, spec.TypeFalse:
		_, err = val.BoolErr()
	case spec.TypeByte:
		_, err = val.ByteErr()
	case spec.TypeInt16:
		_, err = val.Int16Err()
	case spec.TypeInt32:
		_, err = val.Int32Err()
	case spec.TypeInt64:
		_, err = val.Int64Err()
	case spec.TypeUint16:
		_, err = val.Uint16Err()
	case spec.TypeUint32:
		_, err = val.Uint32Err()
	case spec.TypeUint64:
		_, err = val.Uint64Err()
	case spec.TypeFloat32:
		_, err = val.Float32Err()
	case spec.TypeFloat64:
		_, err = val.Float64Err()
	case spec.TypeBin64:
		_, err = val.Bin64Err()
	case spec.TypeBin128:
		_, err = val.Bin128Err()
	case spec.TypeBin256:
		_, err = val.Bin256Err()
	case spec.TypeBytes:
		_, err = val.BytesErr()
	case spec.TypeString:
		_, err = val.StringErr()
	case spec.TypeStruct:
		_, _, err = spec.DecodeStruct(v)
	case spec.TypeList, spec.TypeBigList:
		l, e := val.ListErr()
		if e != nil {
			return fmt.Errorf("ListErr: %v", e)
		}
		if depth > 12 {
			return nil
		}
		for i := 0; i < l.Len(); i++ {
			eb := l.GetBytes(i)
			if len(eb) == 0 {
				continue // not visited by the parser
			}
			ov := spec.OpenValue(eb)
			if ov == nil {
				return fmt.Errorf("element %d: parser accepted it but OpenValue returns nil", i)
			}
			if err := readable(ov, depth+1); err != nil {
				return fmt.Errorf("element %d: %v", i, err)
			}
		}
		return nil
	case spec.TypeMessage, spec.TypeBigMessage:
		m, e := val.MessageErr()
		if e != nil {
			return fmt.Errorf("MessageErr: %v", e)
		}
		if depth > 12 {
			return nil
		}
		for i := 0; i < m.Fields(); i++ {
			tag, _ := m.TagAt(i)
			raw := m.FieldRaw(tag)
			fa := m.FieldAt(i)
			// the parser visits field i when its end offset lies within the data
			_, sz, perr := spec.ParseValue(fieldRawAt(m, i))
			if perr != nil || sz == 0 {
				continue
			}
			if fa == nil {
				return fmt.Errorf("field index %d (tag %d): parser accepted it but FieldAt returns nil", i, tag)
			}
			if err := readable(fa, depth+1); err != nil {
				return fmt.Errorf("field index %d (tag %d): %v", i, tag, err)
			}
			_ = raw
		}
		return nil
	default:
		return fmt.Errorf("accepted value has invalid type %d", t)
	}
	if err != nil {
		return fmt.Errorf("typed accessor of its own type %v fails: %v", t, err)
	}
	return nil
}

// fieldRawAt returns the bytes the parser looks at for table entry i (data[:end]).
func fieldRawAt(m spec.Message, i int) []byte {
	t, _, err := spec.DecodeMessageTable(m.Raw())
	if err != nil {
		return nil
	}
	end := t.OffsetByIndex(i)
	if end < 0 || end > int(t.DataSize()) {
		return nil
	}
	return m.Raw()[:end]
}

var c13Prefixes = [][]byte{
	{}, {0}, {0xfd}, {0xfe}, {0xff}, {0xfd, 0xfd}, {1, 2}, {1, 2, 0xfd}, {0xff, 0xff, 0xff, 0xfe}, {7, 0xfe},
	{0, 0, 0, 0, 0, 0, 0, 0xff}, {60}, {50}, {70}, {80}, {90}, {11}, {0, 3, 80}, {5, 0, 60},
}

// agree checks the C13 oracle for one input. Returns (accepted, nontrivial).
func agree(t ev.TB, b []byte, extraPrefix []byte, origin string) (bool, bool) {
	kase := c13case{Input: hexHead(b, 96), Origin: origin}
	var v []byte
	var n int
	var err error
	pan := catch(func() { v, n, err = spec.ParseValue(b) })
	if pan != "" {
		return false, false // a crash is C02's subject
	}
	if err != nil || n == 0 {
		return false, false
	}
	// 1. probes agree
	pt, _, _ := spec.DecodeType(b)
	tt, tn, terr := spec.DecodeTypeSize(b)
	if terr != nil || tn != n || tt != pt {
		ev.Violation(t, c13, "probe-disagrees", kase, "ParseValue accepts % x with n=%d type=%v but DecodeTypeSize returns type=%v n=%d err=%v", clip(b, 40), n, pt, tt, tn, terr)
	}
	if n > len(b) || !bytes.Equal(v, b[len(b)-n:]) {
		ev.Violation(t, c13, "parse-value-not-suffix", kase, "ParseValue returned n=%d and %d bytes that are not the input's suffix", n, len(v))
	}
	ov := spec.OpenValue(b)
	if ov == nil || !bytes.Equal(ov, v) {
		ev.Violation(t, c13, "open-disagrees", kase, "ParseValue accepts % x (n=%d) but OpenValue returns %d bytes", clip(b, 40), n, len(ov))
	}
	ove, oerr := spec.OpenValueErr(b)
	if oerr != nil || !bytes.Equal(ove, v) {
		ev.Violation(t, c13, "openerr-disagrees", kase, "ParseValue accepts % x (n=%d) but OpenValueErr returns %d bytes err=%v", clip(b, 40), n, len(ove), oerr)
	}
	// 2. re-parse fixed point
	v2, n2, err2 := spec.ParseValue(v)
	if err2 != nil || n2 != n || !bytes.Equal(v2, v) {
		ev.Violation(t, c13, "reparse-differs", kase, "re-parsing the returned value gives n=%d err=%v, first parse n=%d", n2, err2, n)
	}
	// 3. everything the parser visited is readable
	var rerr error
	if pan := catch(func() { rerr = readable(v, 0) }); pan != "" {
		return true, false
	}
	if rerr != nil {
		ev.Violation(t, c13, "visited-not-readable", kase, "parser accepted % x but re-reading fails: %v", clip(b, 40), rerr)
	}
	// 4. locality under prefixes
	var base []string
	if pan := catch(func() { base = snapshot(v) }); pan != "" {
		return true, false
	}
	prefixes := c13Prefixes
	if len(extraPrefix) > 0 {
		prefixes = append(append([][]byte{}, prefixes...), extraPrefix)
	}
	for _, p := range prefixes {
		if len(p) == 0 {
			continue
		}
		in := append(append([]byte(nil), p...), v...)
		var got []string
		if pan := catch(func() { got = snapshot(in) }); pan != "" {
			continue
		}
		for i := range base {
			if base[i] != got[i] {
				k := kase
				k.Prefix = fmt.Sprintf("%x", p)
				ev.Violation(t, c13, "not-local", k, "decoding depends on bytes before the value: value % x alone gives [%s], after prefix % x gives [%s]", clip(v, 40), base[i], p, got[i])
			}
		}
	}
	typ := v[len(v)-1]
	nt := n > 2 || typ >= 50
	return true, nt
}

func catch(f func()) (panicked string) {
	defer func() {
		if r := recover(); r != nil {
			if fromRapid(debug.Stack()) {
				panic(r)
			}
			panicked = fmt.Sprint(r)
		}
	}()
	f()
	return
}

func TestC13_ExhaustiveShort(t *testing.T) {
	shard, shards := ev.Shard()
	ev.Rule(c13, "exhaustive: every byte string of length <=2, and length 3 with last byte a type code and middle bytes from the varint-marker alphabet; each accepted input checked for parse/probe/open agreement, re-parse fixed point, readability and locality under 18 adversarial prefixes; non-trivial = accepted")
	var n, acc int64
	one := func(in []byte) {
		a, _ := agree(t, in, nil, "exhaustive")
		n++
		if a {
			acc++
		}
	}
	if shard == 0 {
		for a := 0; a < 256; a++ {
			one([]byte{byte(a)})
		}
	}
	for a := shard; a < 256; a += shards {
		for b := 0; b < 256; b++ {
			one([]byte{byte(a), byte(b)})
		}
	}
	mids := []byte{0, 1, 2, 3, 0x7f, 0xfc, 0xfd, 0xfe, 0xff, 50, 60, 70, 80, 90}
	for ai, a := range mids {
		if ai%shards != shard {
			continue
		}
		for _, b := range mids {
			for _, c := range refcodec.TypeCodes {
				one([]byte{a, b, c})
				for _, d := range mids {
					one([]byte{d, a, b, c})
				}
			}
		}
	}
	ev.CaseEnum(c13, n, acc, "exhaustive-short")
	ev.Label(c13, "exhaustive-accepted", acc)
	ev.Exhaustive(c13, "all byte strings of length <=2")
	ev.Sample(c13, c13case{Input: "fd0b", Origin: "exhaustive: truncated varint before an int32 type byte"})
}

func TestC13_Mutants(t *testing.T) {
	ev.Rule(c13, "valid encodings from the C01 generator and their structure-aware mutants (every structural byte x hostile values, truncations), filtered by parser acceptance (rate reported as label), each re-decoded under 18 fixed adversarial prefixes plus a drawn prefix; non-trivial = container or multi-byte value; distinct by input hash")
	ev.CheckScaled(t, c13, 1, 1, func(rt *rapid.T) {
		s := gen.RapidSrc{T: rt}
		n, _ := gen.Tree(s, gen.Limits{MaxDepth: 3, MaxNodes: 12})
		base := refcodec.Encode(nil, n)
		extra := rapid.SliceOfN(rapid.Byte(), 1, 12).Draw(rt, "prefix")
		a, nt := agree(rt, base, extra, "valid encoding")
		if !a {
			ev.Violation(rt, c13, "valid-rejected", c13case{Input: hexHead(base, 96)}, "parser rejects a valid encoding of %s", n.Render(200))
		}
		ev.Case(c13, ev.Hash(base), nt, "valid")
		if len(base) > 300 {
			return
		}
		marks := refcodec.Marks(base, n)
		var tot, acc int64
		mutateStructural(rt, c13, base, marks, func(in []byte, origin string) {
			a, nt := agree(rt, in, extra, origin)
			tot++
			if a {
				acc++
				ev.Case(c13, ev.Hash(in), nt, "mutant-accepted")
			}
		})
		for k := 1; k < len(base); k++ {
			if a, nt := agree(rt, base[k:], extra, "front-truncated"); a {
				acc++
				ev.Case(c13, ev.Hash(base[k:]), nt, "truncated-accepted")
			}
			if a, nt := agree(rt, base[:k], extra, "tail-truncated"); a {
				acc++
				ev.Case(c13, ev.Hash(base[:k], 1), nt, "truncated-accepted")
			}
			tot += 2
		}
		ev.Label(c13, "mutants-total", tot)
		ev.Label(c13, "mutants-accepted", acc)
		if ev.WantSample(c13) {
			ev.Sample(c13, map[string]any{"base_tree": n.Render(160), "base_hex": hexHead(base, 40), "mutants": tot, "accepted": acc, "drawn_prefix": fmt.Sprintf("%x", extra)})
		}
	})
}

// TestC13_LyingContainers applies the agreement oracle to hand-built containers whose declared
// sizes and table entries lie (the C02 builder): a single substituted byte cannot turn a one-byte
// size into the five-byte form, so sizes near 2^31/2^32 are only reachable by construction.
func TestC13_LyingContainers(t *testing.T) {
	ev.Rule(c13, "hand-built lists and messages (small and big form) with lying data/table sizes (off by one, 0xfc..0xffff, 2^31, values just below 2^32) and lying table entries over valid or garbage element data, alone and nested in a valid list; filtered by parser acceptance; each accepted input is held to the same agreement/locality oracle under the fixed adversarial prefixes and a drawn one; non-trivial = accepted")
	ev.CheckScaled(t, c13, 20, 1, func(rt *rapid.T) {
		in, desc := drawLyingContainer(rt)
		extra := rapid.SliceOfN(rapid.Byte(), 1, 12).Draw(rt, "prefix")
		if rapid.IntRange(0, 2).Draw(rt, "nest") == 0 {
			in = refcodec.RawContainer(refcodec.TList, in, []byte{byte(len(in) >> 8), byte(len(in))}, uint64(len(in)), 2)
			desc += " (nested in a valid list)"
		}
		a, _ := agree(rt, in, extra, desc)
		ev.Case(c13, ev.Hash(in, "lying"), a, fmt.Sprintf("lying-accepted=%v", a))
	})
}
