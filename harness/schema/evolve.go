package schema

import (
	"fmt"
	"strconv"

	"verifharness/gen"
)

// Evolve derives version B of a single-package set from version A by a random sequence
// of add / remove / rename / reorder edits on message fields (tags of surviving fields
// and their types are kept). Package ids become idA and idB.
func Evolve(s gen.Src, a *Set, idA, idB string) (va, vb *Set, edits []string, counts map[string]int) {
	counts = map[string]int{}
	va, vb = cloneSet(a), cloneSet(a)
	for _, set := range []*Set{va, vb} {
		id := idA
		if set == vb {
			id = idB
		}
		p := set.Pkgs[0]
		p.ID, p.GoPath = id, set.Module+"/"+id
		for _, f := range p.Files {
			for i := range f.Options {
				if f.Options[i].Name == "go_package" {
					f.Options[i].Value = p.GoPath
				}
			}
		}
	}
	seq := 0
	for _, f := range vb.Pkgs[0].Files {
		for _, d := range f.Defs {
			if d.Kind != DefMessage {
				continue
			}
			n := s.Intn(5, "nedits")
			for k := 0; k < n; k++ {
				switch s.Intn(4, "edit") {
				case 0: // add a field with a fresh tag
					used := map[string]bool{}
					usedNames := map[string]bool{}
					for _, fl := range d.Fields {
						used[fl.Tag] = true
						usedNames[Camel(fl.Name)] = true
					}
					// never reuse a tag of version A (a removed tag must not get a new meaning)
					for _, fa := range va.Pkgs[0].Files {
						for _, da := range fa.Defs {
							if da.Name == d.Name {
								for _, fl := range da.Fields {
									used[fl.Tag] = true
									usedNames[Camel(fl.Name)] = true
								}
							}
						}
					}
					tag := ""
					for try := 0; try < 50; try++ {
						t := strconv.Itoa(1 + s.Intn(65535, "newtag"))
						if s.Intn(2, "newtagsmall") == 0 {
							t = strconv.Itoa(1 + s.Intn(300, "newtag2"))
						}
						if !used[t] {
							tag = t
							break
						}
					}
					if tag == "" {
						continue
					}
					seq++
					name := fmt.Sprintf("zadd%d", seq)
					if usedNames[Camel(name)] {
						continue
					}
					t := Type{Name: Builtins[s.Intn(len(Builtins), "addkind")]}
					if s.Intn(4, "addlist") == 0 {
						t.List = true
					}
					d.Fields = append(d.Fields, Field{Name: name, Type: t, Tag: tag})
					edits = append(edits, fmt.Sprintf("%s: add %s %s %s", d.Name, name, t, tag))
					counts["add"]++
				case 1: // remove
					if len(d.Fields) == 0 {
						continue
					}
					i := s.Intn(len(d.Fields), "rmidx")
					edits = append(edits, fmt.Sprintf("%s: remove %s (tag %s)", d.Name, d.Fields[i].Name, d.Fields[i].Tag))
					d.Fields = append(d.Fields[:i:i], d.Fields[i+1:]...)
					counts["remove"]++
				case 2: // rename
					if len(d.Fields) == 0 {
						continue
					}
					i := s.Intn(len(d.Fields), "rnidx")
					seq++
					nn := fmt.Sprintf("zren%d", seq)
					edits = append(edits, fmt.Sprintf("%s: rename %s -> %s", d.Name, d.Fields[i].Name, nn))
					d.Fields[i].Name = nn
					counts["rename"]++
				default: // reorder declarations
					if len(d.Fields) < 2 {
						continue
					}
					i, j := s.Intn(len(d.Fields), "ro1"), s.Intn(len(d.Fields), "ro2")
					d.Fields[i], d.Fields[j] = d.Fields[j], d.Fields[i]
					edits = append(edits, fmt.Sprintf("%s: swap declarations %d and %d", d.Name, i, j))
					counts["reorder"]++
				}
			}
		}
	}
	return
}
