package net

// C07 — flow control bounds unacknowledged data and never deadlocks.

import (
	"fmt"
	"net"
	"sync"
	"testing"
	"time"

	"github.com/basecomplextech/baselibrary/async"
	"github.com/basecomplextech/baselibrary/status"
	"github.com/basecomplextech/baselibrary/units"
	"github.com/basecomplextech/spec/mpx"
	"pgregory.net/rapid"

	"verifharness/ev"
	"verifharness/fcmodel"
	"verifharness/netfx"
)

const c07 = "C07"

const (
	graceBlocked = 60 * time.Millisecond // how long "nothing happens" is observed
)

// ---------- layer 1: model ----------

func relSizes(w int64) []int64 {
	raw := []int64{1, w/2 - 1, w / 2, w/2 + 1, w - 1, w, w + 1, 2 * w}
	seen := map[int64]bool{}
	var out []int64
	for _, v := range raw {
		if v >= 1 && !seen[v] {
			seen[v] = true
			out = append(out, v)
		}
	}
	return out
}

func TestC07_ModelExhaustive(t *testing.T) {
	shard, shards := ev.Shard()
	maxW, maxLen := int64(16), 3
	if ev.Thorough() {
		maxW, maxLen = 40, 4
	}
	ev.Rule(c07, fmt.Sprintf("model layer, bounded-exhaustive: every window W in 1..%d, every message-size sequence of length <=%d over {1,W/2-1,W/2,W/2+1,W-1,W,W+1,2W} with and without a closing payload, every interleaving of {send, deliver-data, consume, deliver-update} (DFS with visited set); invariants: outstanding <= max(W, W-floor(W/2)+size) after each admission, no stuck state", maxW, maxLen))
	var states, trans, runs int64
	for w := int64(1); w <= maxW; w++ {
		if int(w)%shards != shard {
			continue
		}
		sizes := relSizes(w)
		var seq []int64
		var rec func(d int)
		rec = func(d int) {
			if d > 0 {
				for _, closing := range []int64{0, sizes[len(sizes)-1]} {
					s, tr, v := fcmodel.Explore(w, seq, closing)
					states += int64(s)
					trans += int64(tr)
					runs++
					if v != "" {
						ev.Violation(t, c07, "model:"+v, map[string]any{"W": w, "sizes": seq, "closing": closing}, "flow-control rules as stated are inconsistent: %s (W=%d sizes=%v closing=%d)", v, w, seq, closing)
					}
				}
			}
			if d == maxLen {
				return
			}
			for _, s := range sizes {
				seq = append(seq, s)
				rec(d + 1)
				seq = seq[:len(seq)-1]
			}
		}
		rec(0)
	}
	ev.CaseEnum(c07, runs, runs, "model-runs")
	ev.Label(c07, "model-states", states)
	ev.Label(c07, "model-transitions", trans)
	ev.Exhaustive(c07, fmt.Sprintf("model: W<=%d, sequences<=%d, all interleavings (shard %d/%d: %d states)", maxW, maxLen, shard, shards, states))
}

// ---------- raw server fixture ----------

type rawServer struct {
	ln     net.Listener
	peers  chan *netfx.RawPeer
	frames chan netfx.Frame
	errc   chan error
}

func newRawServer() (*rawServer, error) {
	ln, err := netfx.ListenLoopback()
	if err != nil {
		return nil, err
	}
	rs := &rawServer{ln: ln, peers: make(chan *netfx.RawPeer, 4), frames: make(chan netfx.Frame, 4096), errc: make(chan error, 4)}
	go func() {
		for {
			c, err := ln.Accept()
			if err != nil {
				return
			}
			p := netfx.NewRawPeer(c)
			if err := p.ServerHandshake(false); err != nil {
				rs.errc <- err
				c.Close()
				continue
			}
			rs.peers <- p
			go func() {
				for {
					f, err := p.ReadFrame(time.Hour)
					if err != nil {
						close(rs.frames)
						return
					}
					for _, x := range f.Flat() {
						rs.frames <- x
					}
				}
			}()
		}
	}()
	return rs, nil
}

func (rs *rawServer) close() { rs.ln.Close() }

// next returns the next frame or false on timeout.
func (rs *rawServer) next(d time.Duration) (netfx.Frame, bool) {
	select {
	case f, ok := <-rs.frames:
		return f, ok
	case <-time.After(d):
		return netfx.Frame{}, false
	}
}

type c07senderCase struct {
	W       int64     `json:"window"`
	Sizes   []int64   `json:"message_sizes"`
	Acks    [][]int64 `json:"scripted_window_updates_per_blocked_send"`
	Ending  string    `json:"ending"`
	History []string  `json:"history"`
}

// ---------- layer 2: implementation as sender ----------

func TestC07_SenderConformance(t *testing.T) {
	ev.Rule(c07, "conformance, implementation as sender: real mpx client against a scripted raw wire-level server; case = (W, message sizes over the relative alphabet, scripted acknowledgements, ending in {SendAndClose with payload under exhausted window, cancel of a blocked Send, peer close of a blocked Send, plain}); the model decides for every Send whether it must be admitted (frame arrives, bound 10 s) or must block (no frame and no return during a 60 ms observation) and after which scripted update it must be admitted; frames must carry the sent sizes in order; non-trivial = >=1 send blocks and is later admitted, or an oversize message is admitted on the half-window rule")
	ev.Check(t, c07, func(rt *rapid.T) {
		wChoices := []int64{1, 2, 3, 4, 5, 8, 16, 64, 101, 1000, 65536}
		w := wChoices[rapid.IntRange(0, len(wChoices)-1).Draw(rt, "W")]
		rel := relSizes(w)
		n := rapid.IntRange(1, 6).Draw(rt, "nmsgs")
		var sizes []int64
		for i := 0; i < n; i++ {
			sizes = append(sizes, rel[rapid.IntRange(0, len(rel)-1).Draw(rt, "size")])
		}
		ending := []string{"plain", "sendandclose", "cancel-blocked", "peer-close-blocked"}[rapid.IntRange(0, 3).Draw(rt, "ending")]
		kase := &c07senderCase{W: w, Sizes: sizes, Ending: ending}
		hist := func(format string, a ...any) { kase.History = append(kase.History, fmt.Sprintf(format, a...)) }
		fail := func(key, format string, a ...any) {
			ev.Violation(rt, c07, key, kase, format, a...)
		}

		rs, err := newRawServer()
		if err != nil {
			ev.InfraSkip(rt, c07, "%v", err)
		}
		defer rs.close()
		log := netfx.NewLogger()
		opts := mpx.Default()
		opts.Compression = false
		opts.ChannelWindowSize = units.Bytes(w)
		conn, st := mpx.Connect(ctxNone(), rs.ln.Addr().String(), log, opts)
		if !st.OK() {
			ev.InfraSkip(rt, c07, "connect: %v", st)
		}
		defer conn.Close()
		var peer *netfx.RawPeer
		select {
		case peer = <-rs.peers:
		case err := <-rs.errc:
			ev.InfraSkip(rt, c07, "raw handshake: %v", err)
		case <-time.After(boundArrive()):
			ev.InfraSkip(rt, c07, "no raw peer")
		}
		defer peer.Close()
		ch, st := conn.Channel(ctxNone())
		if !st.OK() {
			ev.InfraSkip(rt, c07, "channel: %v", st)
		}
		defer ch.Free()

		// sender goroutine executes one Send at a time on request
		type req struct {
			data  []byte
			ctx   async.Context
			close bool
		}
		reqs := make(chan req)
		res := make(chan status.Status, 1)
		var wg sync.WaitGroup
		wg.Add(1)
		go func() {
			defer wg.Done()
			for r := range reqs {
				if r.close {
					res <- ch.SendAndClose(r.ctx, r.data)
				} else {
					res <- ch.Send(r.ctx, r.data)
				}
			}
		}()
		defer func() {
			// unblock a Send that is still waiting for the window before joining the goroutine
			conn.Close()
			close(reqs)
			select {
			case <-res:
			default:
			}
			wg.Wait()
		}()

		model := fcmodel.NewSender(w)
		var id netfx.ID
		blockedAdmitted, oversize := false, false
		payload := func(i int, size int64) []byte {
			return netfx.Make(netfx.Header{Chan: 7, Seq: uint32(i)}, int(size))
		}
		expectFrame := func(i int, size int64, code int32, what string) bool {
			f, ok := rs.next(boundArrive())
			if !ok {
				fail("sender:frame-missing", "%s: no frame within %v", what, boundArrive())
				return false
			}
			if f.Code != code || int64(len(f.Data)) != size {
				fail("sender:wrong-frame", "%s: got frame code=%d with %d payload bytes, want code=%d with %d bytes", what, f.Code, len(f.Data), code, size)
				return false
			}
			if err := netfx.Verify(f.Data, netfx.Header{Chan: 7, Seq: uint32(i)}, int(size)); err != nil && size > 0 {
				fail("sender:wrong-frame", "%s: %v", what, err)
			}
			if code == netfx.CodeOpen {
				id = f.ID
				if int64(f.Window) != w {
					fail("sender:open-window", "open frame announces window %d, configured %d", f.Window, w)
				}
			}
			return true
		}
		for i, size := range sizes {
			data := payload(i, size)
			if i == 0 {
				reqs <- req{data: data, ctx: ctxNone()}
				if st := <-res; !st.OK() {
					fail("sender:send-failed", "first Send: %v", st)
				}
				model.Debit(size)
				hist("send[0] size=%d opens the channel (exempt)", size)
				expectFrame(0, size, netfx.CodeOpen, "open frame")
				continue
			}
			if model.Admits(size) {
				if size > model.Free {
					oversize = true
				}
				reqs <- req{data: data, ctx: ctxNone()}
				select {
				case st := <-res:
					if !st.OK() {
						fail("sender:send-failed", "Send[%d]: %v", i, st)
					}
				case <-time.After(boundArrive()):
					fail("sender:admissible-send-blocked", "Send[%d] of %d bytes must be admitted (free window %d, W=%d) but did not return within %v", i, size, model.Free, w, boundArrive())
				}
				model.Debit(size)
				if out := model.Outstanding(); out > fcmodel.Bound(w, size) {
					fail("sender:bound", "harness/model error: outstanding %d > bound %d", out, fcmodel.Bound(w, size))
				}
				hist("send[%d] size=%d admitted, free=%d", i, size, model.Free)
				expectFrame(i, size, netfx.CodeData, fmt.Sprintf("data frame %d", i))
				continue
			}
			// must block
			last := i == len(sizes)-1
			if last && ending == "sendandclose" {
				// closing payload is exempt: goes out although the window is exhausted
				reqs <- req{data: data, ctx: ctxNone(), close: true}
				select {
				case st := <-res:
					if !st.OK() {
						fail("sender:close-failed", "SendAndClose under exhausted window: %v", st)
					}
				case <-time.After(boundArrive()):
					fail("sender:close-waits-for-window", "SendAndClose of %d bytes with free window %d (W=%d) did not return within %v: the closing payload must not wait for the window", size, model.Free, w, boundArrive())
				}
				hist("sendAndClose size=%d with free=%d (exempt)", size, model.Free)
				expectFrame(i, size, netfx.CodeClose, "close frame with payload")
				ending = "done"
				break
			}
			ctx := async.NewContext()
			reqs <- req{data: data, ctx: ctx}
			hist("send[%d] size=%d must block (free=%d)", i, size, model.Free)
			observeBlocked := func(why string) bool {
				select {
				case st := <-res:
					fail("sender:inadmissible-send-admitted", "Send[%d] of %d bytes returned %v although the free window is %d < min(size, W/2=%d) (%s)", i, size, st, model.Free, w/2, why)
					return false
				case f, ok := <-rs.frames:
					if ok {
						fail("sender:inadmissible-send-admitted", "a frame (code %d, %d bytes) was sent although the free window is %d < min(size=%d, W/2=%d) (%s)", f.Code, len(f.Data), model.Free, size, w/2, why)
					}
					return false
				case <-time.After(graceBlocked):
					return true
				}
			}
			if !observeBlocked("before any update") {
				return
			}
			if last && ending == "cancel-blocked" {
				ctx.Cancel()
				select {
				case st := <-res:
					if st.OK() {
						fail("sender:cancel-ignored", "blocked Send returned OK after its context was cancelled")
					}
				case <-time.After(boundArrive()):
					fail("sender:cancel-ignored", "blocked Send did not return within %v after its context was cancelled", boundArrive())
				}
				hist("blocked send released by context cancel")
				ending = "done"
				ctx.Free()
				break
			}
			if last && ending == "peer-close-blocked" {
				peer.WriteMsg(netfx.CloseMsg(id, nil))
				select {
				case st := <-res:
					if st.OK() {
						fail("sender:close-ignored", "blocked Send returned OK after the peer closed the channel")
					}
				case <-time.After(boundArrive()):
					fail("sender:close-ignored", "blocked Send did not return within %v after the peer closed the channel", boundArrive())
				}
				hist("blocked send released by peer close")
				ending = "done"
				ctx.Free()
				break
			}
			// scripted updates until the model admits
			var acks []int64
			for step := 0; !model.Admits(size); step++ {
				need := size
				if h := w / 2; h < need {
					need = h
				}
				missing := need - model.Free
				var delta int64
				if rapid.Bool().Draw(rt, "partialack") && missing > 1 && step < 3 {
					delta = int64(rapid.IntRange(1, int(min64(missing-1, 1<<20))).Draw(rt, "delta"))
				} else {
					delta = missing + int64(rapid.IntRange(0, 3).Draw(rt, "extra"))
				}
				acks = append(acks, delta)
				peer.WriteMsg(netfx.WindowMsg(id, int32(delta)))
				model.Ack(delta)
				hist("peer acks %d, free=%d", delta, model.Free)
				if !model.Admits(size) {
					if !observeBlocked(fmt.Sprintf("after insufficient update %d", delta)) {
						return
					}
				}
			}
			kase.Acks = append(kase.Acks, acks)
			select {
			case st := <-res:
				if !st.OK() {
					fail("sender:send-failed", "Send[%d] after sufficient update: %v", i, st)
				}
			case <-time.After(boundArrive()):
				fail("sender:blocked-send-never-admitted", "Send[%d] of %d bytes stayed blocked for %v after updates %v made the free window %d (W=%d)", i, size, boundArrive(), acks, model.Free, w)
			}
			model.Debit(size)
			blockedAdmitted = true
			expectFrame(i, size, netfx.CodeData, fmt.Sprintf("data frame %d after unblocking", i))
			ctx.Free()
		}
		if p := libraryPanicText(log); p != "" {
			fail("sender:library-panic", "%s", p)
		}
		ev.Case(c07, ev.Hash("S", w, fmt.Sprint(sizes), kase.Ending, fmt.Sprint(kase.Acks)), blockedAdmitted || oversize,
			fmt.Sprintf("sender:blocked-then-admitted=%v", blockedAdmitted), fmt.Sprintf("sender:oversize-admitted=%v", oversize), "sender:ending="+kase.Ending)
		if ev.WantSample(c07) {
			ev.Sample(c07, kase)
		}
	})
}

func min64(a, b int64) int64 {
	if a < b {
		return a
	}
	return b
}

// ---------- layer 3: implementation as receiver ----------

type c07recvCase struct {
	W       int64    `json:"window"`
	Open    int64    `json:"open_payload"`
	Data    []int64  `json:"data_frames"`
	CloseAt int      `json:"receiver_closes_before_receive"`
	History []string `json:"history"`
}

func TestC07_ReceiverConformance(t *testing.T) {
	ev.Rule(c07, "conformance, implementation as receiver: real mpx server whose handler calls Receive on command, raw client sends open+data frames per script; after every Receive a marker is sent on a second channel of the same connection (FIFO fence through the single write queue), so the presence, amount and absence of a channel_window frame are decided without timing: acknowledge when consumed >= floor(W/2) with exactly the consumed amount (the opening payload counts), nothing once the receiving side has closed")
	ev.Check(t, c07, func(rt *rapid.T) {
		wChoices := []int64{1, 2, 3, 4, 5, 8, 16, 64, 101, 1000}
		w := wChoices[rapid.IntRange(0, len(wChoices)-1).Draw(rt, "W")]
		rel := relSizes(w)
		openSize := int64(2) + rel[rapid.IntRange(0, len(rel)-1).Draw(rt, "opensize")]
		n := rapid.IntRange(0, 7).Draw(rt, "ndata")
		var data []int64
		for i := 0; i < n; i++ {
			data = append(data, rel[rapid.IntRange(0, len(rel)-1).Draw(rt, "size")])
		}
		closeAt := -1
		if rapid.IntRange(0, 3).Draw(rt, "closes") == 0 && n > 0 {
			closeAt = rapid.IntRange(0, n-1).Draw(rt, "closeat")
		}
		kase := &c07recvCase{W: w, Open: openSize, Data: data, CloseAt: closeAt}
		hist := func(format string, a ...any) { kase.History = append(kase.History, fmt.Sprintf(format, a...)) }
		fail := func(key, format string, a ...any) { ev.Violation(rt, c07, key, kase, format, a...) }

		type cmd struct{ closeFirst bool }
		cmds := make(chan cmd)
		got := make(chan int, 1)
		marks := make(chan struct{})
		handler := mpx.HandleFunc(func(ctx mpx.Context, ch mpx.Channel) status.Status {
			first, st := ch.Receive(ctx)
			if !st.OK() {
				return status.OK
			}
			if first[0] == 'B' {
				for range marks {
					if st := ch.Send(ctx, []byte("MARK")); !st.OK() {
						return status.OK
					}
				}
				return status.OK
			}
			got <- len(first)
			for c := range cmds {
				if c.closeFirst {
					ch.SendAndClose(ctx, nil)
				}
				m, st := ch.Receive(ctxNone())
				if !st.OK() {
					got <- -1
					continue
				}
				got <- len(m)
			}
			return status.OK
		})
		log := netfx.NewLogger()
		opts := mpx.Default()
		opts.Compression = false
		srv, err := netfx.StartServer(handler, log, opts)
		if err != nil {
			ev.InfraSkip(rt, c07, "%v", err)
		}
		defer srv.Stop()
		defer close(marks)
		defer close(cmds)
		peer, err := netfx.DialRaw(srv.Addr)
		if err != nil {
			ev.InfraSkip(rt, c07, "%v", err)
		}
		defer peer.Close()
		if _, err := peer.ClientHandshake(false); err != nil {
			ev.InfraSkip(rt, c07, "handshake: %v", err)
		}
		idA, idB := netfx.MakeID(1), netfx.MakeID(2)
		pa := make([]byte, openSize)
		pa[0] = 'A'
		peer.WriteMsg(netfx.OpenMsg(idB, 1<<20, []byte("B")))
		peer.WriteMsg(netfx.OpenMsg(idA, int32(w), pa))
		for _, s := range data {
			peer.WriteMsg(netfx.DataMsg(idA, make([]byte, s)))
		}
		model := fcmodel.NewReceiver(w)
		closed := false
		// fence: returns window deltas seen for A before the marker
		fence := func() ([]int64, bool) {
			marks <- struct{}{}
			var deltas []int64
			for {
				f, err := peer.ReadFrame(boundArrive())
				if err != nil {
					fail("receiver:marker-missing", "marker did not arrive within %v: %v", boundArrive(), err)
					return nil, false
				}
				for _, x := range f.Flat() {
					switch {
					case x.Code == netfx.CodeWindow && x.ID == idA:
						deltas = append(deltas, int64(x.Window))
					case x.Code == netfx.CodeData && x.ID == idB:
						return deltas, true
					case x.Code == netfx.CodeClose && x.ID == idA:
					case x.Code == netfx.CodeWindow && x.ID == idB:
					default:
						fail("receiver:unexpected-frame", "unexpected frame code=%d", x.Code)
						return nil, false
					}
				}
			}
		}
		check := func(what string, size int64) bool {
			want := int64(0)
			if !closed {
				want = model.Consume(size)
			}
			deltas, ok := fence()
			if !ok {
				return false
			}
			hist("%s size=%d -> updates %v (model: %d)", what, size, deltas, want)
			switch {
			case want == 0 && len(deltas) > 0:
				fail("receiver:unexpected-update", "%s of %d bytes: window update %v emitted, none expected (consumed-unacknowledged %d < floor(W/2)=%d, closed=%v)", what, size, deltas, model.Consumed, w/2, closed)
				return false
			case want > 0 && (len(deltas) != 1 || deltas[0] != want):
				fail("receiver:wrong-update", "%s of %d bytes: window updates %v, expected exactly one of %d (W=%d)", what, size, deltas, want, w)
				return false
			}
			return true
		}
		select {
		case sz := <-got:
			if int64(sz) != openSize {
				fail("receiver:wrong-size", "open payload read as %d bytes, sent %d", sz, openSize)
			}
		case <-time.After(boundArrive()):
			fail("receiver:no-delivery", "handler did not receive the opening payload within %v", boundArrive())
		}
		if !check("opening payload", openSize) {
			return
		}
		updates := 0
		for i, s := range data {
			c := cmd{}
			if i == closeAt {
				c.closeFirst = true
				closed = true
			}
			select {
			case cmds <- c:
			case <-time.After(boundArrive()):
				fail("receiver:handler-stuck", "handler did not take the next command")
				return
			}
			select {
			case sz := <-got:
				if sz == -1 && closed {
					// the receiving side closed the channel itself: frames not yet processed
					// when it closed are dropped, so the end status is legitimate here
					hist("receive %d after own close: end status", i)
					if deltas, ok := fence(); ok && len(deltas) > 0 {
						fail("receiver:unexpected-update", "window update %v emitted after the receiving side closed", deltas)
					}
					goto finished
				}
				if int64(sz) != s {
					fail("receiver:wrong-size", "data frame %d read as %d bytes, sent %d (closed=%v)", i, sz, s, closed)
					return
				}
			case <-time.After(boundArrive()):
				fail("receiver:no-delivery", "Receive %d did not return within %v", i, boundArrive())
				return
			}
			before := model.Consumed
			if !check(fmt.Sprintf("data[%d]", i), s) {
				return
			}
			if !closed && before+s >= w/2 {
				updates++
			}
		}
	finished:
		if p := libraryPanicText(log); p != "" {
			fail("receiver:library-panic", "%s", p)
		}
		ev.Case(c07, ev.Hash("R", w, openSize, fmt.Sprint(data), closeAt), updates > 0 || closeAt >= 0,
			fmt.Sprintf("receiver:updates>0=%v", updates > 0), fmt.Sprintf("receiver:closed-variant=%v", closeAt >= 0))
		if ev.WantSample(c07) {
			ev.Sample(c07, kase)
		}
	})
}

// ---------- layer 4: end-to-end liveness ----------

func TestC07_EndToEndLiveness(t *testing.T) {
	ev.Rule(c07, "end-to-end: real client and server, W in {1,2,3,5,8,64,4096}, 5..40 messages of 1..4W bytes in each direction, consumers with drawn pauses; every message is delivered and the channel ends (bound 60 s)")
	ev.CheckScaled(t, c07, 1, 2, func(rt *rapid.T) {
		w := []int{1, 2, 3, 5, 8, 64, 4096}[rapid.IntRange(0, 6).Draw(rt, "W")]
		cfg := netConfig{Window: w, Compression: rapid.Bool().Draw(rt, "compression"), Procs: []int{1, 2, 16}[rapid.IntRange(0, 2).Draw(rt, "procs")],
			WriteQueue: bufChoices[rapid.IntRange(0, len(bufChoices)-1).Draw(rt, "writeq")]}
		cfg.Sched = drawSched(rt) // seeded yields, among others between "window insufficient" and the wait for an update
		sc := &chanScript{ID: chanSeq.Add(1), Variant: rapid.IntRange(0, 1).Draw(rt, "variant")}
		nc := rapid.IntRange(5, 40).Draw(rt, "nc2s")
		ns := rapid.IntRange(5, 40).Draw(rt, "ns2c")
		for i := 0; i < nc; i++ {
			s := rapid.IntRange(1, 4*w).Draw(rt, "c2s")
			if i == 0 && s < 16 {
				s = 16
			}
			sc.C2S = append(sc.C2S, s)
		}
		for i := 0; i < ns; i++ {
			sc.S2C = append(sc.S2C, rapid.IntRange(1, 4*w).Draw(rt, "s2c"))
		}
		sc.YieldC = rapid.IntRange(0, 3).Draw(rt, "yieldc")
		sc.YieldS = rapid.IntRange(0, 3).Draw(rt, "yields")
		f := runC03(cfg, 1, []*chanScript{sc})
		if f.key == "infra" {
			ev.InfraSkip(rt, c07, "%s", f.msg)
		}
		if f.key != "" {
			key := "e2e:" + f.key
			ev.Violation(rt, c07, key, &c03case{Config: cfg, Conns: 1, Channels: []*chanScript{sc}, Failure: f.msg}, "%s", f.msg)
		}
		ev.Case(c07, ev.Hash("E", fmt.Sprint(cfg), fmt.Sprint(sc.C2S, sc.S2C, sc.Variant)), true, "e2e")
	})
}

// boundArrive is how long a "must happen" may take (20 s: generous, an overloaded machine must not turn into a violation; shorter while shrinking, see ev.Bound).
func boundArrive() time.Duration { return ev.Bound(20 * time.Second) }
