package schema

import (
	"fmt"
	"strconv"

	"verifharness/gen"
)

// Mutation is one single-rule mutation of a valid schema set.
type Mutation struct {
	Op         string   // operator = rule broken
	MustReject bool     // the statement lists this rule: the compiler must reject and name the element
	Names      []string // any of these must appear in the error message
	Desc       string
	Pkg        int // index of the mutated package (generation must fail there or earlier)
	LexError   bool
}

// Operators lists every operator name (for mandatory-coverage labels).
var Operators = []string{
	"dup-definition", "dup-field-name", "dup-tag", "dup-enum-name", "dup-enum-number", "tag-zero", "tag-65536", "tag-2^31",
	"enum-value-2^31", "enum-value-2^63", "enum-no-zero", "unknown-type", "unknown-import-alias", "service-typed-field", "service-typed-list-element",
	"service-typed-struct-field", "struct-field-any", "struct-field-message", "struct-field-list", "struct-field-message-ref", "struct-self-recursive",
	"struct-mutually-recursive", "struct-cycle-behind-outer", "channel-in-scalar", "channel-out-enum", "channel-in-struct", "input-scalar", "output-scalar", "import-missing",
	"import-cycle", "import-empty-package", "dup-import-alias", "generated-name-collision", "dup-method", "list-of-any", "list-of-message", "empty-struct",
	"field-named-clone", "field-named-unwrap", "lex-unterminated-comment", "lex-unterminated-string", "lex-bad-char", "lex-float-token",
}

func cloneSet(s *Set) *Set {
	out := &Set{Module: s.Module}
	for _, p := range s.Pkgs {
		np := &Package{ID: p.ID, GoPath: p.GoPath}
		for _, f := range p.Files {
			nf := &File{Name: f.Name, Imports: append([]Import(nil), f.Imports...), Options: append([]Option(nil), f.Options...), HasImports: f.HasImports, HasOptions: f.HasOptions}
			for _, d := range f.Defs {
				nd := &Def{Kind: d.Kind, Name: d.Name, Values: append([]EnumValue(nil), d.Values...), Fields: append([]Field(nil), d.Fields...)}
				for _, m := range d.Methods {
					mm := m
					mm.InputFields = append([]Field(nil), m.InputFields...)
					mm.OutputFields = append([]Field(nil), m.OutputFields...)
					nd.Methods = append(nd.Methods, mm)
				}
				nf.Defs = append(nf.Defs, nd)
			}
			np.Files = append(np.Files, nf)
		}
		out.Pkgs = append(out.Pkgs, np)
	}
	return out
}

type site struct {
	pkg  int
	file *File
	def  *Def
}

func defsOf(s *Set, kind DefKind, need func(*Def) bool) []site {
	var out []site
	for pi, p := range s.Pkgs {
		for _, f := range p.Files {
			for _, d := range f.Defs {
				if d.Kind == kind && (need == nil || need(d)) {
					out = append(out, site{pi, f, d})
				}
			}
		}
	}
	return out
}

func pick(src gen.Src, ss []site) (site, bool) {
	if len(ss) == 0 {
		return site{}, false
	}
	return ss[src.Intn(len(ss), "site")], true
}

func usedTag(d *Def) string {
	max := 0
	for _, f := range d.Fields {
		if v, _ := strconv.Atoi(f.Tag); v > max {
			max = v
		}
	}
	if max >= 60000 {
		for t := 1; ; t++ {
			free := true
			for _, f := range d.Fields {
				if f.Tag == strconv.Itoa(t) {
					free = false
				}
			}
			if free {
				return strconv.Itoa(t)
			}
		}
	}
	return strconv.Itoa(max + 1)
}

// Mutate applies operator op at a drawn applicable site of a clone of base.
// ok=false when the operator has no applicable site in this base.
func Mutate(src gen.Src, base *Set, op string) (*Set, *Mutation, bool) {
	s := cloneSet(base)
	m := &Mutation{Op: op, MustReject: true}
	msgs := defsOf(s, DefMessage, nil)
	msgsWithFields := defsOf(s, DefMessage, func(d *Def) bool { return len(d.Fields) > 0 })
	structs := defsOf(s, DefStruct, nil)
	enums := defsOf(s, DefEnum, nil)
	svcs := append(defsOf(s, DefService, nil), defsOf(s, DefSubservice, nil)...)
	addField := func(st site, name string, t Type) {
		st.def.Fields = append(st.def.Fields, Field{Name: name, Type: t, Tag: usedTag(st.def)})
	}
	firstService := func(pkg int) (string, bool) {
		for _, f := range s.Pkgs[pkg].Files {
			for _, d := range f.Defs {
				if d.Kind == DefService || d.Kind == DefSubservice {
					return d.Name, true
				}
			}
		}
		return "", false
	}
	localMsg := func(pkg int) (string, bool) {
		for _, f := range s.Pkgs[pkg].Files {
			for _, d := range f.Defs {
				if d.Kind == DefMessage {
					return d.Name, true
				}
			}
		}
		return "", false
	}
	switch op {
	case "dup-definition":
		st, ok := pick(src, msgs)
		if !ok {
			return nil, nil, false
		}
		// another definition with the same name, possibly in another file of the package
		f := s.Pkgs[st.pkg].Files[src.Intn(len(s.Pkgs[st.pkg].Files), "dupfile")]
		f.Defs = append(f.Defs, &Def{Kind: DefEnum, Name: st.def.Name, Values: []EnumValue{{Name: "z", Value: "0"}}})
		m.Names, m.Pkg, m.Desc = []string{st.def.Name}, st.pkg, "second definition named "+st.def.Name
	case "dup-field-name":
		st, ok := pick(src, msgsWithFields)
		if !ok {
			return nil, nil, false
		}
		fl := st.def.Fields[src.Intn(len(st.def.Fields), "f")]
		addField(st, fl.Name, Type{Name: "int32"})
		m.Names, m.Pkg, m.Desc = []string{fl.Name}, st.pkg, "duplicate field name "+fl.Name+" in "+st.def.Name
	case "dup-tag":
		st, ok := pick(src, msgsWithFields)
		if !ok {
			return nil, nil, false
		}
		fl := st.def.Fields[src.Intn(len(st.def.Fields), "f")]
		st.def.Fields = append(st.def.Fields, Field{Name: "zz_dup", Type: Type{Name: "int32"}, Tag: fl.Tag})
		m.Names, m.Pkg, m.Desc = []string{"zz_dup", fl.Name, st.def.Name}, st.pkg, "duplicate tag "+fl.Tag+" in "+st.def.Name
	case "dup-enum-name":
		st, ok := pick(src, enums)
		if !ok {
			return nil, nil, false
		}
		v := st.def.Values[src.Intn(len(st.def.Values), "v")]
		st.def.Values = append(st.def.Values, EnumValue{Name: v.Name, Value: "777777"})
		m.Names, m.Pkg, m.Desc = []string{v.Name}, st.pkg, "duplicate enum value name "+v.Name
	case "dup-enum-number":
		st, ok := pick(src, enums)
		if !ok {
			return nil, nil, false
		}
		v := st.def.Values[src.Intn(len(st.def.Values), "v")]
		st.def.Values = append(st.def.Values, EnumValue{Name: "zz_dupnum", Value: v.Value})
		m.Names, m.Pkg, m.Desc = []string{"zz_dupnum", v.Name, st.def.Name}, st.pkg, "duplicate enum number "+v.Value
	case "tag-zero", "tag-65536", "tag-2^31":
		st, ok := pick(src, msgs)
		if !ok {
			return nil, nil, false
		}
		tag := map[string]string{"tag-zero": "0", "tag-65536": "65536", "tag-2^31": "2147483648"}[op]
		st.def.Fields = append(st.def.Fields, Field{Name: "zz_tag", Type: Type{Name: "int32"}, Tag: tag})
		m.Names, m.Pkg, m.Desc = []string{"zz_tag"}, st.pkg, "field zz_tag with tag "+tag+" in "+st.def.Name
	case "enum-value-2^31", "enum-value-2^63":
		st, ok := pick(src, enums)
		if !ok {
			return nil, nil, false
		}
		val := map[string]string{"enum-value-2^31": "2147483648", "enum-value-2^63": "9223372036854775807"}[op]
		st.def.Values = append(st.def.Values, EnumValue{Name: "zz_big", Value: val})
		m.Names, m.Pkg, m.Desc = []string{"zz_big"}, st.pkg, "enum value "+val
	case "enum-no-zero":
		st, ok := pick(src, enums)
		if !ok {
			return nil, nil, false
		}
		for i := range st.def.Values {
			if st.def.Values[i].Value == "0" {
				st.def.Values[i].Value = "424242"
			}
		}
		m.Names, m.Pkg, m.Desc = []string{st.def.Name}, st.pkg, "enum "+st.def.Name+" without a zero value"
	case "unknown-type":
		st, ok := pick(src, msgs)
		if !ok {
			return nil, nil, false
		}
		addField(st, "zz_unknown", Type{Name: "NoSuchType", List: src.Intn(2, "l") == 0})
		m.Names, m.Pkg, m.Desc = []string{"NoSuchType", "zz_unknown"}, st.pkg, "field of undefined type NoSuchType"
	case "unknown-import-alias":
		st, ok := pick(src, msgs)
		if !ok {
			return nil, nil, false
		}
		addField(st, "zz_noimport", Type{Pkg: "nosuchpkg", Name: "T"})
		m.Names, m.Pkg, m.Desc = []string{"nosuchpkg", "zz_noimport"}, st.pkg, "field of type nosuchpkg.T without such import"
	case "service-typed-field", "service-typed-list-element", "service-typed-struct-field":
		st, ok := pick(src, svcs)
		if !ok {
			return nil, nil, false
		}
		name := st.def.Name
		var target site
		var found bool
		if op == "service-typed-struct-field" {
			for _, c := range structs {
				if c.pkg == st.pkg {
					target, found = c, true
				}
			}
		} else {
			for _, c := range msgs {
				if c.pkg == st.pkg {
					target, found = c, true
				}
			}
		}
		if !found {
			return nil, nil, false
		}
		target.def.Fields = append(target.def.Fields, Field{Name: "zz_svc", Type: Type{Name: name, List: op == "service-typed-list-element"}, Tag: usedTag(target.def)})
		m.Names, m.Pkg, m.Desc = []string{"zz_svc"}, st.pkg, "field zz_svc typed with service "+name
	case "struct-field-any", "struct-field-message", "struct-field-list", "struct-field-message-ref":
		st, ok := pick(src, structs)
		if !ok {
			return nil, nil, false
		}
		var t Type
		switch op {
		case "struct-field-any":
			t = Type{Name: "any"}
		case "struct-field-message":
			t = Type{Name: "message"}
		case "struct-field-list":
			t = Type{Name: "int32", List: true}
		default:
			n, ok := localMsg(st.pkg)
			if !ok {
				return nil, nil, false
			}
			t = Type{Name: n}
		}
		st.def.Fields = append(st.def.Fields, Field{Name: "zz_nonvalue", Type: t})
		m.Names, m.Pkg, m.Desc = []string{"zz_nonvalue"}, st.pkg, "struct "+st.def.Name+" with a field of type "+t.String()
	case "struct-self-recursive":
		st, ok := pick(src, structs)
		if !ok {
			return nil, nil, false
		}
		st.def.Fields = append(st.def.Fields, Field{Name: "zz_self", Type: Type{Name: st.def.Name}})
		m.Names, m.Pkg, m.Desc = []string{"zz_self", st.def.Name}, st.pkg, "struct containing itself"
	case "struct-mutually-recursive":
		st, ok := pick(src, structs)
		if !ok {
			return nil, nil, false
		}
		other := &Def{Kind: DefStruct, Name: "ZzOther", Fields: []Field{{Name: "back", Type: Type{Name: st.def.Name}}}}
		st.file.Defs = append(st.file.Defs, other)
		st.def.Fields = append(st.def.Fields, Field{Name: "zz_other", Type: Type{Name: "ZzOther"}})
		m.Names, m.Pkg, m.Desc = []string{"zz_other", "back", st.def.Name, "ZzOther"}, st.pkg, "two structs containing each other"
	case "struct-cycle-behind-outer":
		// a cycle of 2..3 new structs, and a struct (or a chain of two) that is not on the cycle but embeds a
		// member of it, declared BEFORE the cycle members (order matters for searches that remember visited nodes)
		st, ok := pick(src, structs)
		if !ok {
			return nil, nil, false
		}
		n := 2 + src.Intn(2, "cyclen")
		var cyc []*Def
		for i := 0; i < n; i++ {
			cyc = append(cyc, &Def{Kind: DefStruct, Name: fmt.Sprintf("ZzCyc%d", i)})
		}
		for i, d := range cyc {
			d.Fields = []Field{{Name: "flag", Type: Type{Name: "bool"}}, {Name: "next", Type: Type{Name: cyc[(i+1)%n].Name}}}
		}
		outer := &Def{Kind: DefStruct, Name: "ZzOuter", Fields: []Field{{Name: "id", Type: Type{Name: "int64"}}, {Name: "inner", Type: Type{Name: cyc[src.Intn(n, "cycmember")].Name}}}}
		front := []*Def{outer}
		if src.Intn(2, "outerchain") == 0 {
			front = []*Def{{Kind: DefStruct, Name: "ZzTop", Fields: []Field{{Name: "mid", Type: Type{Name: "ZzOuter"}}}}, outer}
		}
		st.file.Defs = append(front, st.file.Defs...)
		st.file.Defs = append(st.file.Defs, cyc...)
		m.Names, m.Pkg, m.Desc = []string{"ZzCyc0", "ZzCyc1", "ZzCyc2", "next", "ZzOuter", "inner"}, st.pkg, fmt.Sprintf("cycle of %d structs behind a struct that is declared before them", n)
	case "channel-in-scalar", "channel-out-enum", "channel-in-struct", "input-scalar", "output-scalar", "dup-method":
		st, ok := pick(src, svcs)
		if !ok {
			return nil, nil, false
		}
		mm := Method{Name: "zz_badmethod", InputFields: nil}
		switch op {
		case "channel-in-scalar":
			t := Type{Name: "int32"}
			mm.ChanIn = &t
		case "channel-out-enum":
			var en string
			for _, e := range enums {
				if e.pkg == st.pkg {
					en = e.def.Name
				}
			}
			if en == "" {
				return nil, nil, false
			}
			t := Type{Name: en}
			mm.ChanOut = &t
		case "channel-in-struct":
			var sn string
			for _, e := range structs {
				if e.pkg == st.pkg {
					sn = e.def.Name
				}
			}
			if sn == "" {
				return nil, nil, false
			}
			t := Type{Name: sn}
			mm.ChanIn = &t
		case "input-scalar":
			mm.InputType = &Type{Name: "string"}
		case "output-scalar":
			mm.HasOutput = true
			mm.OutputType = &Type{Name: "int64"}
		case "dup-method":
			if len(st.def.Methods) == 0 {
				return nil, nil, false
			}
			mm.Name = st.def.Methods[0].Name
		}
		st.def.Methods = append(st.def.Methods, mm)
		m.Names, m.Pkg, m.Desc = []string{mm.Name}, st.pkg, "method "+mm.Name+" breaking rule "+op
	case "import-missing":
		pi := src.Intn(len(s.Pkgs), "pkg")
		f := s.Pkgs[pi].Files[0]
		f.Imports = append(f.Imports, Import{ID: "no/such/pkg"})
		m.Names, m.Pkg, m.Desc = []string{"no/such/pkg"}, pi, "import of a package that does not exist"
	case "import-cycle":
		if len(s.Pkgs) < 2 {
			return nil, nil, false
		}
		// find a package b that imports a; make a import b
		for bi := 1; bi < len(s.Pkgs); bi++ {
			for _, im := range s.Pkgs[bi].Files[0].Imports {
				for ai := 0; ai < bi; ai++ {
					if s.Pkgs[ai].ID == im.ID {
						s.Pkgs[ai].Files[0].Imports = append(s.Pkgs[ai].Files[0].Imports, Import{ID: s.Pkgs[bi].ID})
						m.Names, m.Pkg, m.Desc = []string{s.Pkgs[ai].ID, s.Pkgs[bi].ID}, ai, "circular import between "+s.Pkgs[ai].ID+" and "+s.Pkgs[bi].ID
						return s, m, true
					}
				}
			}
		}
		return nil, nil, false
	case "import-empty-package":
		pi := src.Intn(len(s.Pkgs), "pkg")
		s.Pkgs[pi].Files[0].Imports = append(s.Pkgs[pi].Files[0].Imports, Import{ID: "zzempty"})
		s.Pkgs = append([]*Package{{ID: "zzempty", GoPath: s.Module + "/zzempty"}}, s.Pkgs...)
		m.Names, m.Pkg, m.Desc = []string{"zzempty"}, pi+1, "import of a directory without schema files"
	case "dup-import-alias":
		for pi := range s.Pkgs {
			f := s.Pkgs[pi].Files[0]
			if len(f.Imports) > 0 {
				im := f.Imports[0]
				name := im.Alias
				if name == "" {
					name = im.ID
				}
				f.Imports = append(f.Imports, Import{Alias: name, ID: im.ID})
				m.Names, m.Pkg, m.Desc = []string{name}, pi, "two imports named "+name
				return s, m, true
			}
		}
		return nil, nil, false
	case "generated-name-collision":
		st, ok := pick(src, svcs)
		if !ok {
			return nil, nil, false
		}
		var target *Method
		for i := range st.def.Methods {
			if st.def.Methods[i].InputType == nil && len(st.def.Methods[i].InputFields) > 0 {
				target = &st.def.Methods[i]
			}
		}
		if target == nil {
			return nil, nil, false
		}
		name := st.def.Name + Camel(target.Name) + "Request"
		// explicit definition in another file of the package when possible
		f := s.Pkgs[st.pkg].Files[len(s.Pkgs[st.pkg].Files)-1]
		f.Defs = append(f.Defs, &Def{Kind: DefMessage, Name: name})
		m.Names, m.Pkg, m.Desc = []string{name}, st.pkg, "explicit message named like the generated request "+name
	case "list-of-any", "list-of-message":
		st, ok := pick(src, msgs)
		if !ok {
			return nil, nil, false
		}
		addField(st, "zz_list", Type{Name: map[string]string{"list-of-any": "any", "list-of-message": "message"}[op], List: true})
		m.MustReject = false
		m.Names, m.Pkg, m.Desc = []string{"zz_list"}, st.pkg, "list of "+op[8:]
	case "empty-struct":
		st, ok := pick(src, msgs)
		if !ok {
			return nil, nil, false
		}
		st.file.Defs = append([]*Def{{Kind: DefStruct, Name: "ZzEmpty"}}, st.file.Defs...)
		addField(st, "zz_empty", Type{Name: "ZzEmpty"})
		m.MustReject = false
		m.Names, m.Pkg, m.Desc = []string{"ZzEmpty"}, st.pkg, "struct without fields"
	case "field-named-clone", "field-named-unwrap":
		st, ok := pick(src, msgs)
		if !ok {
			return nil, nil, false
		}
		addField(st, map[string]string{"field-named-clone": "clone", "field-named-unwrap": "unwrap"}[op], Type{Name: "int32"})
		m.MustReject = false
		m.Names, m.Pkg, m.Desc = []string{"clone", "unwrap"}, st.pkg, "field whose accessor collides with a generated method"
	case "lex-unterminated-comment", "lex-unterminated-string", "lex-bad-char", "lex-float-token":
		pi := src.Intn(len(s.Pkgs), "pkg")
		f := s.Pkgs[pi].Files[len(s.Pkgs[pi].Files)-1]
		tail := map[string]string{"lex-unterminated-comment": "ZzLex {} /* never closed", "lex-unterminated-string": "ZzLex {} \"never closed", "lex-bad-char": "ZzLex {} 'ab'", "lex-float-token": "ZzLex {} 1.5"}[op]
		// encoded as a definition whose name carries raw text: rendered verbatim after "message"
		f.Defs = append(f.Defs, &Def{Kind: DefMessage, Name: "\x00RAW:" + tail})
		m.LexError = true
		m.Names, m.Pkg, m.Desc = nil, pi, "lexical error: "+op
	default:
		panic("schema.Mutate: unknown operator " + op)
	}
	_ = fmt.Sprint
	if _, ok := firstService(0); ok {
		_ = ok
	}
	return s, m, true
}
