#!/usr/bin/env python3
"""Validates MANIFEST.json and evidence files against the schemas (needs the tooling venv: python3-vt validate.py)."""
import json, glob, sys, jsonschema
ok = True
try:
    jsonschema.validate(json.load(open('/verif/MANIFEST.json')), json.load(open('/root/.vp/MANIFEST.schema.json')))
    print("MANIFEST ok")
except Exception as e:
    ok = False; print("MANIFEST INVALID", str(e)[:500])
sch = json.load(open('/root/.vp/EVIDENCE.schema.json'))
for f in sorted(glob.glob('/verif/evidence/*.json')):
    try:
        jsonschema.validate(json.load(open(f)), sch); print(f, "ok")
    except Exception as e:
        ok = False; print(f, "INVALID", str(e)[:500])
sys.exit(0 if ok else 1)
