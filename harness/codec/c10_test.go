package codec

// C10 — scalar codecs are exact inverses; width changes never truncate silently.

import (
	"bytes"
	"fmt"
	"math"
	"math/big"
	"testing"

	"github.com/basecomplextech/baselibrary/bin"
	"github.com/basecomplextech/baselibrary/buffer"
	spec "github.com/basecomplextech/spec"
	"pgregory.net/rapid"

	"verifharness/ev"
)

const c10 = "C10"

// encInt encodes v with the encoder of the given width (16/32/64); ok=false when v does not fit.
func encInt(buf buffer.Buffer, width int, v int64) (n int, ok bool) {
	switch width {
	case 16:
		if v < math.MinInt16 || v > math.MaxInt16 {
			return 0, false
		}
		n, _ = spec.EncodeInt16(buf, int16(v))
	case 32:
		if v < math.MinInt32 || v > math.MaxInt32 {
			return 0, false
		}
		n, _ = spec.EncodeInt32(buf, int32(v))
	default:
		n, _ = spec.EncodeInt64(buf, v)
	}
	return n, true
}

func encUint(buf buffer.Buffer, width int, v uint64) (n int, ok bool) {
	switch width {
	case 16:
		if v > math.MaxUint16 {
			return 0, false
		}
		n, _ = spec.EncodeUint16(buf, uint16(v))
	case 32:
		if v > math.MaxUint32 {
			return 0, false
		}
		n, _ = spec.EncodeUint32(buf, uint32(v))
	default:
		n, _ = spec.EncodeUint64(buf, v)
	}
	return n, true
}

func decInt(b []byte, width int) (int64, int, error) {
	switch width {
	case 16:
		v, n, err := spec.DecodeInt16(b)
		return int64(v), n, err
	case 32:
		v, n, err := spec.DecodeInt32(b)
		return int64(v), n, err
	}
	return spec.DecodeInt64(b)
}

func decUint(b []byte, width int) (uint64, int, error) {
	switch width {
	case 16:
		v, n, err := spec.DecodeUint16(b)
		return uint64(v), n, err
	case 32:
		v, n, err := spec.DecodeUint32(b)
		return uint64(v), n, err
	}
	return spec.DecodeUint64(b)
}

func fitsInt(v int64, width int) bool {
	switch width {
	case 16:
		return v >= math.MinInt16 && v <= math.MaxInt16
	case 32:
		return v >= math.MinInt32 && v <= math.MaxInt32
	}
	return true
}

func fitsUint(v uint64, width int) bool {
	switch width {
	case 16:
		return v <= math.MaxUint16
	case 32:
		return v <= math.MaxUint32
	}
	return true
}

var widths = []int{16, 32, 64}

// checkInt runs every (stored width x read width) pair for v; returns number of pair evaluations.
func checkInt(t ev.TB, buf buffer.Buffer, v int64) int {
	evals := 0
	for _, sw := range widths {
		buf.Reset()
		n, ok := encInt(buf, sw, v)
		if !ok {
			continue
		}
		b := buf.Bytes()
		if n != len(b) {
			ev.Violation(t, c10, "int-encode-size", fmt.Sprintf("int%d %d", sw, v), "EncodeInt%d(%d) reported %d bytes, appended %d (% x)", sw, v, n, len(b), b)
		}
		for _, rw := range widths {
			evals++
			got, m, err := decInt(b, rw)
			if fitsInt(v, rw) {
				if err != nil || got != v || m != n {
					ev.Violation(t, c10, "int-cross-width", fmt.Sprintf("int%d->int%d %d", sw, rw, v), "stored int%d %d (% x) read as int%d: got %d n=%d err=%v, want %d n=%d", sw, v, b, rw, got, m, err, v, n)
				}
			} else if err == nil {
				ev.Violation(t, c10, "int-overflow-silent", fmt.Sprintf("int%d->int%d %d", sw, rw, v), "stored int%d %d read as int%d returned %d without error", sw, v, rw, got)
			}
		}
	}
	return evals
}

func checkUint(t ev.TB, buf buffer.Buffer, v uint64) int {
	evals := 0
	for _, sw := range widths {
		buf.Reset()
		n, ok := encUint(buf, sw, v)
		if !ok {
			continue
		}
		b := buf.Bytes()
		if n != len(b) {
			ev.Violation(t, c10, "uint-encode-size", fmt.Sprintf("uint%d %d", sw, v), "EncodeUint%d(%d) reported %d bytes, appended %d (% x)", sw, v, n, len(b), b)
		}
		for _, rw := range widths {
			evals++
			got, m, err := decUint(b, rw)
			if fitsUint(v, rw) {
				if err != nil || got != v || m != n {
					ev.Violation(t, c10, "uint-cross-width", fmt.Sprintf("uint%d->uint%d %d", sw, rw, v), "stored uint%d %d (% x) read as uint%d: got %d n=%d err=%v, want %d n=%d", sw, v, b, rw, got, m, err, v, n)
				}
			} else if err == nil {
				ev.Violation(t, c10, "uint-overflow-silent", fmt.Sprintf("uint%d->uint%d %d", sw, rw, v), "stored uint%d %d read as uint%d returned %d without error", sw, v, rw, got)
			}
		}
	}
	return evals
}

// exactFloat32 reports whether the float64 v is exactly representable as float32.
func exactFloat32(v float64) bool {
	if math.IsNaN(v) || math.IsInf(v, 0) {
		return true
	}
	return float64(float32(v)) == v
}

func checkFloat32(t ev.TB, buf buffer.Buffer, bits uint32) {
	v := math.Float32frombits(bits)
	buf.Reset()
	n, _ := spec.EncodeFloat32(buf, v)
	b := buf.Bytes()
	if n != len(b) || n != 5 {
		ev.Violation(t, c10, "float32-encode-size", fmt.Sprintf("float32 bits=%#x", bits), "EncodeFloat32 reported %d appended %d", n, len(b))
	}
	got, m, err := spec.DecodeFloat32(b)
	if err != nil || math.Float32bits(got) != bits || m != n {
		// NaN payloads may be quieted by float32->float64->float32 conversion in hardware;
		// the property says "exact inverses ... including NaN": require NaN-ness and sign at least,
		// and bit-exactness for everything that is not a signalling NaN.
		if v != v && got != got && err == nil && m == n && isSignalling32(bits) {
			ev.Label(c10, "float32:snan-quieted", 1)
		} else {
			ev.Violation(t, c10, "float32-roundtrip", fmt.Sprintf("float32 bits=%#x", bits), "DecodeFloat32(EncodeFloat32(%v bits=%#08x)) = %v bits=%#08x n=%d err=%v (encoded % x)", v, bits, got, math.Float32bits(got), m, err, b)
		}
	}
	// widening is exact
	g64, m, err := spec.DecodeFloat64(b)
	want := float64(v)
	if err != nil || m != n || !(math.Float64bits(g64) == math.Float64bits(want) || (want != want && g64 != g64)) {
		ev.Violation(t, c10, "float32-widen", fmt.Sprintf("float32 bits=%#x", bits), "float32 %v read as float64: got %v n=%d err=%v", v, g64, m, err)
	}
}

func isSignalling32(bits uint32) bool {
	return bits&0x7f800000 == 0x7f800000 && bits&0x007fffff != 0 && bits&0x00400000 == 0
}

func checkFloat64(t ev.TB, buf buffer.Buffer, bits uint64) {
	v := math.Float64frombits(bits)
	buf.Reset()
	n, _ := spec.EncodeFloat64(buf, v)
	b := buf.Bytes()
	if n != len(b) || n != 9 {
		ev.Violation(t, c10, "float64-encode-size", fmt.Sprintf("float64 bits=%#x", bits), "EncodeFloat64 reported %d appended %d", n, len(b))
	}
	got, m, err := spec.DecodeFloat64(b)
	if err != nil || math.Float64bits(got) != bits || m != n {
		ev.Violation(t, c10, "float64-roundtrip", fmt.Sprintf("float64 bits=%#x", bits), "DecodeFloat64(EncodeFloat64(%v bits=%#016x)) = %v bits=%#016x n=%d err=%v", v, bits, got, math.Float64bits(got), m, err)
	}
	// narrowing: reading decision in DESIGN.md C10
	g32, m, err := spec.DecodeFloat32(b)
	switch {
	case exactFloat32(v):
		ok := err == nil && m == n && (float64(g32) == v || (v != v && g32 != g32))
		if ok && v == 0 && math.Signbit(float64(g32)) != math.Signbit(v) {
			ok = false
		}
		if !ok {
			ev.Violation(t, c10, "float64-narrow-exact", fmt.Sprintf("float64 bits=%#x", bits), "float64 %v (exactly representable) read as float32: got %v n=%d err=%v", v, g32, m, err)
		}
	case math.Abs(v) > math.MaxFloat32:
		// finite, magnitude beyond the float32 range: an overflow error, also for the values just above
		// MaxFloat32 that a plain conversion would round down to it (saturating is silent truncation)
		if err == nil {
			ev.Violation(t, c10, "float64-narrow-overflow", fmt.Sprintf("float64 bits=%#x", bits), "float64 %v (bits %#016x) exceeds the float32 range but read as float32 %v without error", v, bits, g32)
		}
	default:
		if err == nil && g32 != float32(v) {
			ev.Violation(t, c10, "float64-narrow-inexact", fmt.Sprintf("float64 bits=%#x", bits), "float64 %v read as float32 %v, correctly rounded is %v", v, g32, float32(v))
		}
	}
}

func TestC10_Exhaustive16(t *testing.T) {
	ev.Rule(c10, "exhaustive: bool, byte (256), int16 and uint16 (65536 each) x every stored-width x read-width pair; non-trivial = every value (each is a distinct domain element)")
	buf := buffer.New()
	// bool
	for _, v := range []bool{false, true} {
		buf.Reset()
		n, _ := spec.EncodeBool(buf, v)
		b := buf.Bytes()
		got, m, err := spec.DecodeBool(b)
		if n != len(b) || err != nil || got != v || m != n {
			ev.Violation(t, c10, "bool-roundtrip", v, "bool %v: enc n=%d len=%d dec=%v m=%d err=%v", v, n, len(b), got, m, err)
		}
	}
	ev.CaseEnum(c10, 2, 2, "bool")
	for i := 0; i < 256; i++ {
		buf.Reset()
		n, _ := spec.EncodeByte(buf, byte(i))
		b := buf.Bytes()
		got, m, err := spec.DecodeByte(b)
		if n != len(b) || err != nil || got != byte(i) || m != n {
			ev.Violation(t, c10, "byte-roundtrip", i, "byte %d: enc n=%d len=%d dec=%v m=%d err=%v", i, n, len(b), got, m, err)
		}
	}
	ev.CaseEnum(c10, 256, 256, "byte")
	var pairs int64
	for i := math.MinInt16; i <= math.MaxInt16; i++ {
		pairs += int64(checkInt(t, buf, int64(i)))
	}
	ev.CaseEnum(c10, 65536, 65536, "int16")
	for i := 0; i <= math.MaxUint16; i++ {
		pairs += int64(checkUint(t, buf, uint64(i)))
	}
	ev.CaseEnum(c10, 65536, 65536, "uint16")
	ev.Label(c10, "width-pairs", pairs)
	ev.Exhaustive(c10, "bool, byte, int16, uint16 x all width pairs")
	ev.Sample(c10, map[string]any{"kind": "int16 x {16,32,64}->{16,32,64}", "value": -12345})
}

// intEdges: powers of two +-1, varint class edges (raw and zig-zagged), extremes.
func intEdges() []int64 {
	var out []int64
	add := func(v int64) { out = append(out, v, -v, v-1, v+1, -v-1, -v+1) }
	for s := 0; s < 63; s++ {
		add(int64(1) << s)
	}
	for _, u := range []uint64{0xfc, 0xfd, 0xfe, 0xff, 0xffff, 0x10000, 0xffffffff, 0x100000000} {
		// zig-zag preimages of the varint class edges
		for d := -2; d <= 2; d++ {
			ux := u + uint64(d)
			x := int64(ux >> 1)
			if ux&1 != 0 {
				x = ^x
			}
			out = append(out, x)
		}
		add(int64(u))
	}
	out = append(out, 0, math.MinInt64, math.MaxInt64, math.MinInt32, math.MaxInt32, math.MinInt16, math.MaxInt16,
		math.MinInt64+1, math.MaxInt64-1)
	return out
}

func uintEdges() []uint64 {
	var out []uint64
	for s := 0; s < 64; s++ {
		p := uint64(1) << s
		out = append(out, p, p-1, p+1)
	}
	for _, u := range []uint64{0xfc, 0xfd, 0xfe, 0xff, 0xffff, 0x10000, 0xffffffff, 0x100000000} {
		out = append(out, u-2, u-1, u, u+1, u+2)
	}
	out = append(out, 0, math.MaxUint64, math.MaxUint64-1)
	return out
}

func float64Edges() []uint64 {
	var out []uint64
	mants := []uint64{0, 1, (1 << 52) - 1, 0x5555555555555, 0xaaaaaaaaaaaaa, 1 << 51, (1 << 51) | 1, 1 << 29, (1 << 29) - 1, (1 << 29) + 1, 1 << 28, (1<<52 - 1) &^ ((1 << 29) - 1)}
	for sign := uint64(0); sign < 2; sign++ {
		for e := uint64(0); e < 2048; e++ {
			for _, m := range mants {
				out = append(out, sign<<63|e<<52|m)
			}
		}
	}
	// neighbours of +-MaxFloat32 and of the smallest float32 subnormal / normal
	for _, f := range []float64{math.MaxFloat32, math.SmallestNonzeroFloat32, 0x1p-126, 0x1p-149, 0x1p-150, 0x1.fffffefffffffp+127, 0x1.ffffffp+127,
		// the window above MaxFloat32 in which a conversion rounds down to MaxFloat32 (up to half a float32 ulp = 2^103), and its ends
		math.Nextafter(math.MaxFloat32, math.Inf(1)), math.MaxFloat32 + 0x1p80, math.MaxFloat32 + 0x1p100, math.MaxFloat32 + 0x1p102,
		math.Nextafter(math.MaxFloat32+0x1p103, 0), math.MaxFloat32 + 0x1p103, math.Nextafter(math.MaxFloat32+0x1p103, math.Inf(1)), 0x1p128} {
		b := math.Float64bits(f)
		for d := -3; d <= 3; d++ {
			out = append(out, b+uint64(d), (b+uint64(d))|1<<63)
		}
	}
	return out
}

func TestC10_Edges(t *testing.T) {
	ev.Rule(c10, "edge lists: ints = all powers of two +-1, zig-zag and varint class edges (0xfc,0xfd,0xffff,0x10000,0xffffffff,2^32), extremes; floats = every float64 exponent x 12 mantissa patterns x sign, neighbours of +-MaxFloat32 and float32 subnormal limits; every float32 exponent x mantissa patterns; non-trivial = value on a listed edge; distinct by value")
	buf := buffer.New()
	for _, v := range intEdges() {
		checkInt(t, buf, v)
		ev.Case(c10, ev.Hash("int", v), true, "edge:int")
	}
	for _, v := range uintEdges() {
		checkUint(t, buf, v)
		ev.Case(c10, ev.Hash("uint", v), true, "edge:uint")
	}
	for _, b := range float64Edges() {
		checkFloat64(t, buf, b)
		ev.Case(c10, ev.Hash("f64", b), true, "edge:float64")
	}
	mants := []uint32{0, 1, (1 << 23) - 1, 0x2aaaaa, 0x555555, 1 << 22, 1<<22 | 1}
	for sign := uint32(0); sign < 2; sign++ {
		for e := uint32(0); e < 256; e++ {
			for _, m := range mants {
				bits := sign<<31 | e<<23 | m
				checkFloat32(t, buf, bits)
				ev.Case(c10, ev.Hash("f32", bits), true, "edge:float32")
			}
		}
	}
	ev.Sample(c10, map[string]any{"kind": "float64 edge", "bits": fmt.Sprintf("%#016x", math.Float64bits(math.MaxFloat32)+1), "value": math.Float64frombits(math.Float64bits(math.MaxFloat32) + 1)})
	ev.Require(c10, "edge:int", "edge:uint", "edge:float64", "edge:float32")
}

func checkBin(t ev.TB, buf buffer.Buffer, raw [32]byte) {
	var a8 [8]byte
	copy(a8[:], raw[:8])
	v64 := bin.New64(a8)
	buf.Reset()
	n, _ := spec.EncodeBin64(buf, v64)
	b := buf.Bytes()
	g64, m, err := spec.DecodeBin64(b)
	if n != len(b) || err != nil || g64 != v64 || m != n || !bytes.Equal(b[:8], raw[:8]) {
		ev.Violation(t, c10, "bin64-roundtrip", fmt.Sprintf("% x", raw[:8]), "bin64 % x: enc n=%d len=%d dec=%v m=%d err=%v", raw[:8], n, len(b), g64, m, err)
	}
	var a16 [16]byte
	copy(a16[:], raw[:16])
	v128 := bin.New128(a16)
	buf.Reset()
	n, _ = spec.EncodeBin128(buf, v128)
	b = buf.Bytes()
	g128, m, err := spec.DecodeBin128(b)
	if n != len(b) || err != nil || g128 != v128 || m != n || !bytes.Equal(b[:16], raw[:16]) {
		ev.Violation(t, c10, "bin128-roundtrip", fmt.Sprintf("% x", raw[:16]), "bin128 % x: enc n=%d len=%d dec=%v m=%d err=%v", raw[:16], n, len(b), g128, m, err)
	}
	buf.Reset()
	p, n, _ := spec.EncodeBin128Bytes(buf, v128)
	if n != buf.Len() || !bytes.Equal(p, buf.Bytes()) {
		ev.Violation(t, c10, "bin128bytes", fmt.Sprintf("% x", raw[:16]), "EncodeBin128Bytes returned % x n=%d buffer % x", p, n, buf.Bytes())
	}
	v256 := bin.New256(raw)
	buf.Reset()
	n, _ = spec.EncodeBin256(buf, v256)
	b = buf.Bytes()
	g256, m, err := spec.DecodeBin256(b)
	if n != len(b) || err != nil || g256 != v256 || m != n || !bytes.Equal(b[:32], raw[:]) {
		ev.Violation(t, c10, "bin256-roundtrip", fmt.Sprintf("% x", raw), "bin256 % x: enc n=%d len=%d dec=%v m=%d err=%v", raw, n, len(b), g256, m, err)
	}
}

func checkBytesString(t ev.TB, buf buffer.Buffer, data []byte) {
	buf.Reset()
	n, err := spec.EncodeBytes(buf, data)
	b := buf.Bytes()
	if err != nil || n != len(b) {
		ev.Violation(t, c10, "bytes-encode-size", len(data), "EncodeBytes(len %d) n=%d appended=%d err=%v", len(data), n, len(b), err)
	}
	got, m, err := spec.DecodeBytes(b)
	if err != nil || m != n || !bytes.Equal(got, data) {
		ev.Violation(t, c10, "bytes-roundtrip", len(data), "DecodeBytes(EncodeBytes(len %d)) len=%d m=%d n=%d err=%v", len(data), len(got), m, n, err)
	}
	buf.Reset()
	s := string(data)
	n, err = spec.EncodeString(buf, s)
	b = buf.Bytes()
	if err != nil || n != len(b) {
		ev.Violation(t, c10, "string-encode-size", len(data), "EncodeString(len %d) n=%d appended=%d err=%v", len(data), n, len(b), err)
	}
	gs, m, err := spec.DecodeString(b)
	if err != nil || m != n || string(gs) != s {
		ev.Violation(t, c10, "string-roundtrip", len(data), "DecodeString(EncodeString(len %d)) len=%d m=%d n=%d err=%v", len(data), len(gs), m, n, err)
	}
	gc, m, err := spec.DecodeStringClone(b)
	if err != nil || m != n || gc != s {
		ev.Violation(t, c10, "string-clone-roundtrip", len(data), "DecodeStringClone len=%d m=%d n=%d err=%v", len(gc), m, n, err)
	}
}

var sizeEdges = []int{0, 1, 2, 0xfb, 0xfc, 0xfd, 0xfe, 0xff, 0x100, 0xfffe, 0xffff, 0x10000, 0x10001}

func TestC10_BytesStringsBins(t *testing.T) {
	ev.Rule(c10, "bytes/strings: lengths around varint edges (0,1,0xfc,0xfd,0xffff,0x10000) with contents {zeros, 0xff, NUL-heavy, invalid UTF-8, varint-marker bytes} and rapid random content; bins: patterns and random; distinct by content hash")
	buf := buffer.New()
	fills := []func(i int) byte{
		func(i int) byte { return 0 },
		func(i int) byte { return 0xff },
		func(i int) byte { return byte(i) },
		func(i int) byte { return []byte{0xfd, 0xfe, 0xff, 60, 50, 0}[i%6] },
		func(i int) byte { return []byte{0xc3, 0x28, 0xa0, 0xa1, 0xe2, 0x28}[i%6] },
	}
	for _, sz := range sizeEdges {
		for fi, f := range fills {
			data := make([]byte, sz)
			for i := range data {
				data[i] = f(i)
			}
			checkBytesString(t, buf, data)
			ev.Case(c10, ev.Hash("bs", sz, fi), true, "edge:bytes/string")
		}
	}
	pats := [][32]byte{{}, {}, {}, {}}
	for i := range pats[1] {
		pats[1][i] = 0xff
		pats[2][i] = byte(i + 1)
		pats[3][i] = []byte{0xfd, 0xfe, 0xff, 30, 31, 32, 0, 90}[i%8]
	}
	for i, p := range pats {
		checkBin(t, buf, p)
		ev.Case(c10, ev.Hash("bin", i), true, "edge:bin")
	}
	ev.Require(c10, "edge:bytes/string", "edge:bin")
}

func TestC10_Random(t *testing.T) {
	ev.Rule(c10, "rapid random: int64/uint64 (uniform over bit widths), float64 and float32 bit patterns, 32-byte bin patterns, byte strings of length 0..300; non-trivial = all (random domain elements), distinct by value hash")
	ev.Check(t, c10, func(rt *rapid.T) {
		buf := buffer.New()
		i := rapid.Int64().Draw(rt, "int")
		u := rapid.Uint64().Draw(rt, "uint")
		f64 := rapid.Uint64().Draw(rt, "f64bits")
		f32 := rapid.Uint32().Draw(rt, "f32bits")
		data := rapid.SliceOfN(rapid.Byte(), 0, 300).Draw(rt, "data")
		var raw [32]byte
		copy(raw[:], rapid.SliceOfN(rapid.Byte(), 32, 32).Draw(rt, "bin"))
		checkInt(rt, buf, i)
		checkUint(rt, buf, u)
		checkFloat64(rt, buf, f64)
		checkFloat32(rt, buf, f32)
		checkBytesString(rt, buf, data)
		checkBin(rt, buf, raw)
		ev.Case(c10, ev.Hash(i, u, f64, f32, data, raw[:]), true, "random")
		if ev.WantSample(c10) {
			ev.Sample(c10, map[string]any{"int": i, "uint": u, "f64bits": fmt.Sprintf("%#x", f64), "f32bits": fmt.Sprintf("%#x", f32), "data_len": len(data)})
		}
	})
}

// TestC10_Exhaustive32 enumerates all int32, uint32 and float32 values (thorough tier, sharded).
func TestC10_Exhaustive32(t *testing.T) {
	if !ev.Thorough() {
		t.Skip("thorough tier only")
	}
	shard, shards := ev.Shard()
	ev.Rule(c10, "thorough: exhaustive int32, uint32 (x all width pairs) and all 2^32 float32 bit patterns, partitioned across shards")
	buf := buffer.New()
	lo := uint64(shard) * (1 << 32) / uint64(shards)
	hi := uint64(shard+1) * (1 << 32) / uint64(shards)
	for x := lo; x < hi; x++ {
		checkInt(t, buf, int64(int32(uint32(x))))
		checkUint(t, buf, x)
		checkFloat32(t, buf, uint32(x))
	}
	n := int64(hi - lo)
	ev.CaseEnum(c10, 3*n, 3*n, "exhaustive32")
	if shards == 1 || true {
		ev.Exhaustive(c10, fmt.Sprintf("int32/uint32/float32 slice [%d,%d) of 2^32", lo, hi))
	}
}

// exact rational comparison helper kept for float oracle self-test
func TestC10_OracleSelfTest(t *testing.T) {
	// the narrowing oracle's notion of "correctly rounded" is Go's float32(v); cross-check it
	// against big.Float on the MaxFloat32 neighbourhood so that the oracle is not circular.
	for _, f := range []float64{math.MaxFloat32, math.Nextafter(math.MaxFloat32, math.Inf(1)), 0x1.ffffffp+127, 1e-46, 0x1p-149, 0x1p-150, 0x1.8p-149} {
		bf := new(big.Float).SetFloat64(f)
		want, _ := bf.Float32()
		if got := float32(f); got != want {
			t.Fatalf("oracle self-test: float32(%v)=%v big=%v", f, got, want)
		}
	}
}
