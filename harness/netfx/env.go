package netfx

import (
	"fmt"
	"runtime"
	"strings"
	"time"

	"github.com/basecomplextech/baselibrary/status"
	"github.com/basecomplextech/spec/mpx"
)

// Server wraps a started mpx server.
type Server struct {
	S    mpx.Server
	Addr string
	Log  *RecLogger
}

// StartServer starts an mpx server on a loopback port.
func StartServer(h mpx.Handler, log *RecLogger, opts mpx.Options) (*Server, error) {
	s := mpx.NewServer("127.0.0.1:0", h, log, opts)
	if st := s.Start(); !st.OK() {
		return nil, fmt.Errorf("server start: %v", st)
	}
	select {
	case <-s.Listening().Wait():
	case <-s.Stopped().Wait():
		return nil, fmt.Errorf("server stopped before listening: %v", s.Status())
	case <-time.After(10 * time.Second):
		return nil, fmt.Errorf("server not listening after 10s")
	}
	return &Server{S: s, Addr: s.Address(), Log: log}, nil
}

// Stop stops the server and waits.
func (s *Server) Stop() error {
	select {
	case <-s.S.Stop():
		return nil
	case <-time.After(20 * time.Second):
		return fmt.Errorf("server did not stop within 20s")
	}
}

// HandlerFunc adapts a function.
func HandlerFunc(f func(ctx mpx.Context, ch mpx.Channel) status.Status) mpx.Handler {
	return mpx.HandleFunc(f)
}

// ModuleGoroutines returns stacks of goroutines that run per-connection or per-channel
// functions of the module (a stack-signature check: the library keeps an idle worker
// pool by design, so goroutine counts are not meaningful).
func ModuleGoroutines() []string {
	buf := make([]byte, 1<<20)
	for {
		n := runtime.Stack(buf, true)
		if n < len(buf) {
			buf = buf[:n]
			break
		}
		buf = make([]byte, 2*len(buf))
	}
	var out []string
	for _, g := range strings.Split(string(buf), "\n\n") {
		if strings.Contains(g, "spec/mpx.(*conn).") || strings.Contains(g, "spec/mpx.(*channel).") ||
			strings.Contains(g, "spec/mpx.(*channelState).") || strings.Contains(g, "spec/rpc.(*channel).") ||
			strings.Contains(g, "spec/rpc.(*serverChannel).") || strings.Contains(g, "spec/mpx.(*channelHandler).") {
			out = append(out, g)
		}
	}
	return out
}

// WaitNoModuleGoroutines polls until no per-connection goroutine remains.
func WaitNoModuleGoroutines(timeout time.Duration) []string {
	deadline := time.Now().Add(timeout)
	for {
		gs := ModuleGoroutines()
		if len(gs) == 0 || time.Now().After(deadline) {
			return gs
		}
		time.Sleep(5 * time.Millisecond)
	}
}
