package gen

import (
	"encoding/base64"
	"encoding/json"
	"fmt"
)

type jnode struct {
	K string   `json:"k"`
	I *int64   `json:"i,omitempty"`
	U *uint64  `json:"u,omitempty"`
	B *string  `json:"b,omitempty"`
	E []*jnode `json:"e,omitempty"`
	F []jfield `json:"f,omitempty"`
}
type jfield struct {
	T uint16 `json:"t"`
	V *jnode `json:"v"`
}

func toJ(n *Node) *jnode {
	j := &jnode{K: n.Kind.String()}
	switch n.Kind {
	case KBool, KByte, KInt16, KInt32, KInt64:
		v := n.I
		j.I = &v
	case KUint16, KUint32, KUint64, KFloat32, KFloat64:
		v := n.U
		j.U = &v
	case KBin64, KBin128, KBin256, KBytes, KString:
		s := base64.StdEncoding.EncodeToString(n.B)
		j.B = &s
	case KStruct, KList:
		j.E = []*jnode{}
		for _, e := range n.Elems {
			j.E = append(j.E, toJ(e))
		}
	case KMessage:
		j.F = []jfield{}
		for _, f := range n.Fields {
			j.F = append(j.F, jfield{f.Tag, toJ(f.V)})
		}
	}
	return j
}

func fromJ(j *jnode) (*Node, error) {
	var k Kind = 255
	for i, name := range kindNames {
		if name == j.K {
			k = Kind(i)
		}
	}
	if k == 255 {
		return nil, fmt.Errorf("gen: unknown kind %q", j.K)
	}
	n := &Node{Kind: k}
	if j.I != nil {
		n.I = *j.I
	}
	if j.U != nil {
		n.U = *j.U
	}
	if j.B != nil {
		b, err := base64.StdEncoding.DecodeString(*j.B)
		if err != nil {
			return nil, err
		}
		n.B = b
	}
	for _, e := range j.E {
		c, err := fromJ(e)
		if err != nil {
			return nil, err
		}
		n.Elems = append(n.Elems, c)
	}
	for _, f := range j.F {
		c, err := fromJ(f.V)
		if err != nil {
			return nil, err
		}
		n.Fields = append(n.Fields, Field{f.T, c})
	}
	return n, nil
}

// MarshalJSON / UnmarshalNode give a lossless JSON form of a tree (golden corpus, replay files).
func (n *Node) MarshalJSON() ([]byte, error) { return json.Marshal(toJ(n)) }

func UnmarshalNode(b []byte) (*Node, error) {
	var j jnode
	if err := json.Unmarshal(b, &j); err != nil {
		return nil, err
	}
	return fromJ(&j)
}
