package ltest

import (
	"fmt"
	"runtime/debug"
	"sync"

	"verifharness/guard"
	"verifharness/refcodec"
)

// Hostile-input driver for generated decoders (C02): every byte of a valid encoding is set to
// a hostile value, the encoding is truncated at every length from both ends, and each variant
// is placed so that it ends at (then starts after) an inaccessible page. The decoder under
// test must return normally and report a size inside the input.

var hostileValues = []byte{0, 1, 2, 0x7f, 0x80, 0xfc, 0xfd, 0xfe, 0xff}

var (
	regOnce sync.Once
	reg     *guard.Region
)

func region() *guard.Region {
	regOnce.Do(func() {
		r, err := guard.New(1 << 16)
		if err != nil {
			panic("infrastructure: guard region: " + err.Error())
		}
		reg = r
	})
	return reg
}

// Decoder runs one generated read entry point on b and reports the size it returned
// (hasSize=false for entry points without a size).
type Decoder func(b []byte) (size int, hasSize bool, err error)

// Hostile returns the number of inputs tried and a description of the first violation ("" = none).
func Hostile(what string, base []byte, dec Decoder) (tried int, violation string) {
	r := region()
	if len(base) == 0 || len(base) > r.Max() {
		return 0, ""
	}
	try := func(in []byte, origin string) string {
		for pl := 0; pl < 2; pl++ {
			var b []byte
			place := "ends-at-guard-page"
			if pl == 0 {
				b = r.AtEnd(in)
			} else {
				b = r.AtStart(in)
				place = "starts-after-guard-page"
			}
			tried++
			n, hasN, pan := run(dec, b)
			if pan != "" {
				return fmt.Sprintf("key=generated-decoder-panic msg=%s panicked on %x (len %d, %s, %s): %s", what, tail(in, 48), len(in), origin, place, pan)
			}
			if hasN && (n < 0 || n > len(in)) {
				return fmt.Sprintf("key=generated-decoder-bounds msg=%s reports size %d for a %d-byte input %x (%s, %s)", what, n, len(in), tail(in, 48), origin, place)
			}
		}
		return ""
	}
	// long encodings: the last 96 bytes (type, sizes and tables live at the end) plus an even sample of the rest
	pick := func(i int) bool {
		if len(base) <= 160 || i >= len(base)-96 {
			return true
		}
		return i%((len(base)-96)/64+1) == 0
	}
	buf := make([]byte, len(base))
	for off := range base {
		if !pick(off) {
			continue
		}
		orig := base[off]
		vals := append([]byte{orig + 1, orig - 1, orig ^ 0x80}, hostileValues...)
		if off == len(base)-1 || len(base) <= 64 {
			vals = append(vals, refcodec.TypeCodes...)
		}
		for _, v := range vals {
			if v == orig {
				continue
			}
			copy(buf, base)
			buf[off] = v
			if msg := try(buf, fmt.Sprintf("byte %d/%d set to %#x", off, len(base), v)); msg != "" {
				return tried, msg
			}
		}
	}
	for k := 1; k < len(base); k++ {
		if !pick(k) && !pick(len(base)-k) {
			continue
		}
		if msg := try(base[k:], "front-truncated"); msg != "" {
			return tried, msg
		}
		if msg := try(base[:k], "tail-truncated"); msg != "" {
			return tried, msg
		}
	}
	return tried, ""
}

func run(dec Decoder, b []byte) (n int, hasN bool, pan string) {
	old := debug.SetPanicOnFault(true)
	defer debug.SetPanicOnFault(old)
	defer func() {
		if r := recover(); r != nil {
			st := string(debug.Stack())
			if len(st) > 1500 {
				st = st[:1500]
			}
			pan = fmt.Sprintf("%v\n%s", r, st)
		}
	}()
	n, hasN, _ = dec(b)
	return
}

func tail(b []byte, n int) []byte {
	if len(b) > n {
		return b[len(b)-n:]
	}
	return b
}
