package gen

import (
	"math"
)

// Boundary alphabets (DESIGN.md section 2).
var (
	BoundaryTags   = []uint16{0, 1, 2, 3, 127, 128, 254, 255, 256, 257, 1000, 32767, 32768, 65534, 65535}
	FieldCounts    = []int{0, 1, 2, 3, 13, 14, 15, 47, 48, 49, 50, 255, 256, 300}
	ElemCounts     = []int{0, 1, 2, 3, 13, 14, 15, 47, 48, 49, 50, 255, 256, 257}
	PayloadLens    = []int{0, 1, 2, 0xfb, 0xfc, 0xfd, 0xfe, 0xff, 0x100, 0xfffe, 0xffff, 0x10000, 0x10001}
	OffsetTargets  = []int{65534, 65535, 65536, 65537}
	int64Edges     []int64
	uint64Edges    []uint64
	float64Special = []uint64{0, 1 << 63, 0x7ff0000000000000, 0xfff0000000000000, 0x7ff8000000000001, 0x7ff0000000000001, 1, 0x000fffffffffffff, 0x0010000000000000, 0x7fefffffffffffff, 0x47efffffe0000000, 0x3ff0000000000000}
	float32Special = []uint32{0, 1 << 31, 0x7f800000, 0xff800000, 0x7fc00001, 0x7f800001, 1, 0x007fffff, 0x00800000, 0x7f7fffff, 0x3f800000}
)

func init() {
	for _, u := range []uint64{0xfc, 0xfd, 0xfe, 0xff, 0xffff, 0x10000, 0xffffffff, 0x100000000} {
		for d := -1; d <= 1; d++ {
			ux := u + uint64(d)
			uint64Edges = append(uint64Edges, ux)
			x := int64(ux >> 1)
			if ux&1 != 0 {
				x = ^x
			}
			int64Edges = append(int64Edges, x)
		}
	}
	for s := 0; s < 64; s++ {
		uint64Edges = append(uint64Edges, 1<<s, 1<<s-1)
		int64Edges = append(int64Edges, 1<<s, 1<<s-1, -(1 << s), -(1<<s)-1)
	}
	uint64Edges = append(uint64Edges, 0, math.MaxUint64)
	int64Edges = append(int64Edges, 0, -1, math.MinInt64, math.MaxInt64)
}

func clampI(v int64, lo, hi int64) int64 {
	if v < lo {
		return lo + (lo-v)%(hi-lo+1)*0 // clamp
	}
	if v > hi {
		return hi
	}
	return v
}

func drawI(s Src, lo, hi int64) int64 {
	if s.Intn(3, "iedge") == 0 {
		v := int64Edges[s.Intn(len(int64Edges), "iedgeidx")]
		if v >= lo && v <= hi {
			return v
		}
	}
	u := s.Uint64("ival")
	// vary magnitude
	sh := uint(s.Intn(64, "ishift"))
	v := int64(u >> sh)
	if s.Intn(2, "isign") == 1 {
		v = -v
	}
	return clampI(v, lo, hi)
}

func drawU(s Src, hi uint64) uint64 {
	if s.Intn(3, "uedge") == 0 {
		v := uint64Edges[s.Intn(len(uint64Edges), "uedgeidx")]
		if v <= hi {
			return v
		}
	}
	u := s.Uint64("uval") >> uint(s.Intn(64, "ushift"))
	if u > hi {
		u = hi
	}
	return u
}

// Scalar draws a scalar node of a random or given kind (k<0: random among scalars excluding struct).
func Scalar(s Src, k int) *Node {
	if k < 0 {
		k = s.Intn(int(KStruct), "kind")
	}
	switch Kind(k) {
	case KBool:
		return Bool(s.Intn(2, "bool") == 1)
	case KByte:
		return Byte(byte(s.Intn(256, "byte")))
	case KInt16:
		return Int16(int16(drawI(s, math.MinInt16, math.MaxInt16)))
	case KInt32:
		return Int32(int32(drawI(s, math.MinInt32, math.MaxInt32)))
	case KInt64:
		return Int64(drawI(s, math.MinInt64, math.MaxInt64))
	case KUint16:
		return Uint16(uint16(drawU(s, math.MaxUint16)))
	case KUint32:
		return Uint32(uint32(drawU(s, math.MaxUint32)))
	case KUint64:
		return Uint64(drawU(s, math.MaxUint64))
	case KFloat32:
		if s.Intn(2, "fspecial") == 0 {
			return &Node{Kind: KFloat32, U: uint64(float32Special[s.Intn(len(float32Special), "f32s")])}
		}
		return &Node{Kind: KFloat32, U: s.Uint64("f32") & 0xffffffff}
	case KFloat64:
		if s.Intn(2, "fspecial") == 0 {
			return &Node{Kind: KFloat64, U: float64Special[s.Intn(len(float64Special), "f64s")]}
		}
		return &Node{Kind: KFloat64, U: s.Uint64("f64")}
	case KBin64:
		return &Node{Kind: KBin64, B: s.Bytes(8, "bin64")}
	case KBin128:
		return &Node{Kind: KBin128, B: s.Bytes(16, "bin128")}
	case KBin256:
		return &Node{Kind: KBin256, B: s.Bytes(32, "bin256")}
	case KBytes:
		return &Node{Kind: KBytes, B: s.Bytes(smallLen(s), "bytes")}
	case KString:
		return &Node{Kind: KString, B: s.Bytes(smallLen(s), "string")}
	}
	panic("gen: not a scalar kind")
}

func smallLen(s Src) int {
	switch s.Intn(8, "lenclass") {
	case 0:
		return 0
	case 1:
		return 1
	default:
		return s.Intn(24, "len")
	}
}

// Struct draws an opaque struct: 0..6 fixed-layout scalar members.
func Struct(s Src) *Node {
	n := &Node{Kind: KStruct}
	c := s.Intn(7, "structn")
	for i := 0; i < c; i++ {
		n.Elems = append(n.Elems, Scalar(s, s.Intn(int(KBytes), "structkind"))) // no bytes/strings: value types only
	}
	return n
}

// Limits bound a generated tree.
type Limits struct {
	MaxDepth   int  // remaining container depth
	MaxNodes   int  // soft budget of nodes
	BigPayload bool // allow 64 KiB payload knobs
}

type genState struct {
	s      Src
	budget int
	big    bool
	// Hit records the boundary classes constructed (labels for evidence).
	hit map[string]bool
}

// Tree draws a value tree with boundary knobs. The returned set names the boundary
// classes that were constructed on purpose.
func Tree(s Src, lim Limits) (*Node, map[string]bool) {
	g := &genState{s: s, budget: lim.MaxNodes, big: lim.BigPayload, hit: map[string]bool{}}
	if g.budget <= 0 {
		g.budget = 40
	}
	d := lim.MaxDepth
	if d <= 0 {
		d = 4
	}
	var n *Node
	switch s.Intn(12, "rootclass") {
	case 0:
		n = g.any(0) // scalar root
	case 1:
		n = g.deep()
	case 2:
		n = g.offsetBoundary()
	case 3:
		n = g.countBoundary()
	case 4:
		n = g.payloadBoundary()
	default:
		if s.Intn(4, "rootlist") == 0 {
			n = g.list(d)
		} else {
			n = g.message(d)
		}
	}
	return n, g.hit
}

func (g *genState) any(depth int) *Node {
	g.budget--
	if depth <= 0 || g.budget <= 0 {
		if g.s.Intn(10, "leafstruct") == 0 {
			return Struct(g.s)
		}
		return Scalar(g.s, -1)
	}
	switch g.s.Intn(10, "anyclass") {
	case 0, 1:
		return g.message(depth - 1)
	case 2:
		return g.list(depth - 1)
	case 3:
		return Struct(g.s)
	default:
		return Scalar(g.s, -1)
	}
}

func (g *genState) tags(n int) []uint16 {
	seen := map[uint16]bool{}
	out := make([]uint16, 0, n)
	mode := g.s.Intn(4, "tagmode")
	for len(out) < n {
		var t uint16
		switch {
		case mode == 0: // small dense
			t = uint16(g.s.Intn(n+8, "tag"))
		case mode == 1: // boundary alphabet first
			if len(out) < len(BoundaryTags) && g.s.Intn(2, "tagb") == 0 {
				t = BoundaryTags[g.s.Intn(len(BoundaryTags), "tagbi")]
			} else {
				t = uint16(g.s.Intn(65536, "tag"))
			}
		case mode == 2: // straddle 255/256
			t = uint16(200 + g.s.Intn(n+120, "tag"))
		default:
			t = uint16(g.s.Intn(65536, "tag"))
		}
		for seen[t] {
			t++
		}
		seen[t] = true
		out = append(out, t)
	}
	for _, t := range out {
		if t == 255 {
			g.hit["tag=255"] = true
		}
		if t == 256 {
			g.hit["tag=256"] = true
		}
		if t == 65535 {
			g.hit["tag=65535"] = true
		}
		if t > 255 {
			g.hit["tag>255"] = true
		}
	}
	return out
}

func (g *genState) message(depth int) *Node {
	n := g.s.Intn(6, "nfields")
	if g.s.Intn(8, "morefields") == 0 {
		n = g.s.Intn(20, "nfields2")
	}
	m := &Node{Kind: KMessage}
	for _, t := range g.tags(n) {
		m.Fields = append(m.Fields, Field{t, g.any(depth)})
	}
	return m
}

func (g *genState) list(depth int) *Node {
	n := g.s.Intn(6, "nelems")
	if g.s.Intn(8, "moreelems") == 0 {
		n = g.s.Intn(20, "nelems2")
	}
	l := &Node{Kind: KList}
	// homogeneous more often than not (typed lists), but heterogeneous is legal on the wire
	homo := g.s.Intn(3, "homo") != 0
	k := g.s.Intn(int(KStruct), "elemkind")
	for i := 0; i < n; i++ {
		if homo && depth > 0 && g.s.Intn(4, "elemcontainer") == 0 {
			l.Elems = append(l.Elems, g.any(depth))
		} else if homo {
			l.Elems = append(l.Elems, Scalar(g.s, k))
		} else {
			l.Elems = append(l.Elems, g.any(depth))
		}
	}
	return l
}

// deep builds a chain of nested containers of depth 1..22 (beyond the 14 preallocated stack entries).
func (g *genState) deep() *Node {
	return g.deepN(1 + g.s.Intn(22, "deepdepth"))
}

func (g *genState) deepN(d int) *Node {
	if d >= 14 {
		g.hit["depth>=14"] = true
	}
	if d >= 8 {
		g.hit["depth>=8"] = true
	}
	var cur *Node = Scalar(g.s, -1)
	for i := 0; i < d; i++ {
		if g.s.Intn(2, "deepkind") == 0 {
			m := &Node{Kind: KMessage}
			tags := g.tags(1 + g.s.Intn(3, "deepw"))
			pos := g.s.Intn(len(tags), "deeppos")
			for j, t := range tags {
				if j == pos {
					m.Fields = append(m.Fields, Field{t, cur})
				} else {
					m.Fields = append(m.Fields, Field{t, Scalar(g.s, -1)})
				}
			}
			cur = m
		} else {
			l := &Node{Kind: KList}
			w := 1 + g.s.Intn(3, "deepw")
			pos := g.s.Intn(w, "deeppos")
			for j := 0; j < w; j++ {
				if j == pos {
					l.Elems = append(l.Elems, cur)
				} else {
					l.Elems = append(l.Elems, Scalar(g.s, -1))
				}
			}
			cur = l
		}
	}
	return cur
}

// countBoundary builds a message or list with a boundary number of fields/elements,
// optionally wrapped in a parent.
func (g *genState) countBoundary() *Node {
	if g.s.Intn(2, "cbkind") == 0 {
		return g.countBoundaryN(true, FieldCounts[g.s.Intn(len(FieldCounts), "cbn")])
	}
	return g.countBoundaryN(false, ElemCounts[g.s.Intn(len(ElemCounts), "cbn")])
}

func (g *genState) countBoundaryN(msg bool, c int) *Node {
	var n *Node
	if msg {
		n = &Node{Kind: KMessage}
		for _, t := range g.tags(c) {
			n.Fields = append(n.Fields, Field{t, Scalar(g.s, g.s.Intn(int(KBin64), "cbk"))})
		}
		g.hit[labelCount("fields", c)] = true
	} else {
		n = &Node{Kind: KList}
		k := g.s.Intn(int(KBin64), "cbk")
		for i := 0; i < c; i++ {
			n.Elems = append(n.Elems, Scalar(g.s, k))
		}
		g.hit[labelCount("elems", c)] = true
	}
	return g.wrap(n)
}

func labelCount(what string, c int) string {
	switch {
	case c >= 256:
		return what + ">=256"
	case c == 255:
		return what + "=255"
	case c >= 49:
		return what + ">=49"
	case c == 48:
		return what + "=48"
	}
	return what + "<48"
}

// wrap optionally nests n inside a small parent at a random position.
func (g *genState) wrap(n *Node) *Node {
	switch g.s.Intn(4, "wrap") {
	case 0:
		m := &Node{Kind: KMessage}
		tags := g.tags(2)
		if g.s.Intn(2, "wrappos") == 0 {
			m.Fields = []Field{{tags[0], n}, {tags[1], Scalar(g.s, -1)}}
		} else {
			m.Fields = []Field{{tags[0], Scalar(g.s, -1)}, {tags[1], n}}
		}
		return m
	case 1:
		if g.s.Intn(2, "wrappos") == 0 {
			return &Node{Kind: KList, Elems: []*Node{n, Scalar(g.s, -1)}}
		}
		return &Node{Kind: KList, Elems: []*Node{Scalar(g.s, -1), n}}
	}
	return n
}

// payloadBoundary builds bytes/strings with boundary lengths.
func (g *genState) payloadBoundary() *Node {
	max := len(PayloadLens)
	if !g.big {
		max = 9 // up to 0x100
	}
	ln := PayloadLens[g.s.Intn(max, "pblen")]
	k := KBytes
	if g.s.Intn(2, "pbkind") == 0 {
		k = KString
	}
	return g.payloadBoundaryN(k, ln)
}

func (g *genState) payloadBoundaryN(k Kind, ln int) *Node {
	n := &Node{Kind: k, B: g.s.Bytes(ln, "pb")}
	switch {
	case ln >= 0x10000:
		g.hit["payload>=0x10000"] = true
	case ln >= 0xfffe:
		g.hit["payload~0xffff"] = true
	case ln >= 0xfd:
		g.hit["payload>=0xfd"] = true
	case ln >= 0xfb:
		g.hit["payload~0xfc"] = true
	}
	return g.wrap(n)
}

// encSize is a local size function (same layout rules as refcodec.Size, duplicated
// here to keep gen free of imports; cross-checked by a test).
func encSize(n *Node) int {
	vl := func(v uint64) int {
		switch {
		case v <= 0xfc:
			return 1
		case v <= 0xffff:
			return 3
		case v <= 0xffffffff:
			return 5
		}
		return 9
	}
	zz := func(x int64) uint64 { return uint64(x<<1) ^ uint64(x>>63) }
	switch n.Kind {
	case KBool:
		return 1
	case KByte:
		return 2
	case KInt16, KInt32:
		return vl(zz(n.I)&0xffffffff) + 1
	case KInt64:
		return vl(zz(n.I)) + 1
	case KUint16, KUint32, KUint64:
		return vl(n.U) + 1
	case KFloat32:
		return 5
	case KFloat64, KBin64:
		return 9
	case KBin128:
		return 17
	case KBin256:
		return 33
	case KBytes:
		return len(n.B) + vl(uint64(len(n.B))) + 1
	case KString:
		return len(n.B) + 1 + vl(uint64(len(n.B))) + 1
	}
	panic("encSize: containers not supported")
}

// offsetBoundary builds a message or list in which one field/element ends exactly at
// offset 65534..65537 relative to the data start (the compact/big switch by offset).
func (g *genState) offsetBoundary() *Node {
	if !g.big {
		return g.countBoundary()
	}
	return g.offsetBoundaryN(OffsetTargets[g.s.Intn(len(OffsetTargets), "obtarget")], g.s.Intn(2, "obkind") == 0)
}

func (g *genState) offsetBoundaryN(target int, msg bool) *Node {
	// layout: [pad bytes][probe scalar] (+ optional trailing small scalar)
	probe := Scalar(g.s, g.s.Intn(int(KBin64), "obprobe"))
	ps := encSize(probe)
	// pad: bytes value whose encoded size is target-ps: L + 3 + 1 for L in 0xfd..0xffff
	L := target - ps - 4
	var pad *Node
	if L > 0xffff {
		L = target - ps - 6
	}
	pad = &Node{Kind: KBytes, B: g.s.Bytes(L, "obpad")}
	if encSize(pad)+ps != target {
		// split into two pads if the arithmetic does not land (cannot happen for these targets)
		panic("gen: offset boundary arithmetic")
	}
	trailing := g.s.Intn(3, "obtrail")
	var n *Node
	if msg {
		n = &Node{Kind: KMessage}
		tags := g.tags(3)
		// keep tags small so that only the offset decides the table form, unless drawn otherwise
		if g.s.Intn(2, "obsmalltags") == 0 {
			tags = []uint16{uint16(1 + g.s.Intn(80, "t0")), uint16(90 + g.s.Intn(80, "t1")), uint16(180 + g.s.Intn(70, "t2"))}
			// random order
			if g.s.Intn(2, "obperm") == 0 {
				tags[0], tags[2] = tags[2], tags[0]
			}
		}
		n.Fields = []Field{{tags[0], pad}, {tags[1], probe}}
		if trailing > 0 {
			n.Fields = append(n.Fields, Field{tags[2], Scalar(g.s, g.s.Intn(int(KBin64), "obt"))})
		}
		g.hit["msg-offset="+itoa(target)] = true
	} else {
		n = &Node{Kind: KList, Elems: []*Node{pad, probe}}
		if trailing > 0 {
			n.Elems = append(n.Elems, Scalar(g.s, g.s.Intn(int(KBin64), "obt")))
		}
		g.hit["list-offset="+itoa(target)] = true
	}
	return g.wrap(n)
}

func itoa(v int) string {
	if v == 0 {
		return "0"
	}
	var b [20]byte
	i := len(b)
	for v > 0 {
		i--
		b[i] = byte('0' + v%10)
		v /= 10
	}
	return string(b[i:])
}

// Class builds one tree of a named boundary class with an explicit parameter
// (used by the deterministic boundary sweep).
func Class(s Src, class string, param int, flag bool) (*Node, map[string]bool) {
	g := &genState{s: s, budget: 40, big: true, hit: map[string]bool{}}
	var n *Node
	switch class {
	case "deep":
		n = g.deepN(param)
	case "count":
		n = g.countBoundaryN(flag, param)
	case "payload":
		k := KBytes
		if flag {
			k = KString
		}
		n = g.payloadBoundaryN(k, param)
	case "offset":
		n = g.offsetBoundaryN(param, flag)
	default:
		panic("gen.Class: " + class)
	}
	return n, g.hit
}
