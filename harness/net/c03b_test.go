package net

// C03, second layer: several goroutines send on the SAME channel.
//
// The property quantifies over "all interleavings of concurrent senders/receivers on
// 1..N channels" and names the per-channel send mutex as the mechanism that keeps
// open/data/close frames in call order. With one sender per channel end (TestC03_Delivery)
// that mutex is never contended. Here 2..4 lanes call Send concurrently on one channel,
// including the very first Sends on a fresh channel (the open frame must reach the peer
// before any data frame) and Sends racing a SendAndClose (a Send that returned OK must
// be delivered before the end is observed).

import (
	"fmt"
	"sync"
	"testing"
	"time"

	"github.com/basecomplextech/baselibrary/async"
	"github.com/basecomplextech/baselibrary/status"
	"github.com/basecomplextech/spec/mpx"
	"pgregory.net/rapid"

	"verifharness/ev"
	"verifharness/netfx"
)

type sharedScript struct {
	ID       uint32  `json:"id"`
	Side     int     `json:"sending_side"` // 0 client lanes -> server, 1 server lanes -> client
	Lanes    [][]int `json:"lane_message_sizes"`
	Race     bool    `json:"close_races_sends"` // lane 0 ends with SendAndClose without waiting for the others
	ClosePay int     `json:"closing_payload_size"`
	Stagger  []int   `json:"lane_start_yields"`

	mu     sync.Mutex
	okSent []int // per lane: number of Sends that returned OK
	closed string
	recv   [][]byte
	end    string
	done   bool
}

type c03bCase struct {
	Config   netConfig       `json:"config"`
	Channels []*sharedScript `json:"channels"`
	Failure  string          `json:"failure,omitempty"`
}

var c03bRegistry sync.Map

const closeLane = 0xfffe

// runLanes performs the sending side of a script on ch.
func (sc *sharedScript) runLanes(ctx async.Context, ch mpx.Channel, dir uint8) {
	var wg sync.WaitGroup
	start := make(chan struct{})
	closePayload := func() []byte {
		if sc.ClosePay == 0 {
			return nil
		}
		return netfx.Make(netfx.Header{Conn: closeLane, Chan: sc.ID, Dir: dir, Seq: 0}, sc.ClosePay)
	}
	for lane := range sc.Lanes {
		wg.Add(1)
		go func(lane int) {
			defer wg.Done()
			<-start
			for k := 0; k < sc.Stagger[lane]; k++ {
				runtimeGosched()
			}
			for i, size := range sc.Lanes[lane] {
				p := netfx.Make(netfx.Header{Conn: uint16(lane), Chan: sc.ID, Dir: dir, Seq: uint32(i)}, size)
				if st := ch.Send(ctx, p); !st.OK() {
					return
				}
				sc.mu.Lock()
				sc.okSent[lane] = i + 1
				sc.mu.Unlock()
			}
			if sc.Race && lane == 0 {
				st := ch.SendAndClose(ctx, closePayload())
				sc.mu.Lock()
				sc.closed = string(st.Code)
				sc.mu.Unlock()
			}
		}(lane)
	}
	close(start)
	wg.Wait()
	if !sc.Race {
		st := ch.SendAndClose(ctx, closePayload())
		sc.mu.Lock()
		sc.closed = string(st.Code)
		sc.mu.Unlock()
	}
}

// recvAll reads until the end status.
func (sc *sharedScript) recvAll(ctx async.Context, ch mpx.Channel, first []byte) {
	if first != nil {
		sc.mu.Lock()
		sc.recv = append(sc.recv, append([]byte(nil), first...))
		sc.mu.Unlock()
	}
	for {
		msg, st := ch.Receive(ctx)
		if !st.OK() {
			sc.mu.Lock()
			sc.end = string(st.Code)
			sc.mu.Unlock()
			return
		}
		if len(msg) == 0 {
			continue
		}
		sc.mu.Lock()
		sc.recv = append(sc.recv, append([]byte(nil), msg...))
		sc.mu.Unlock()
	}
}

func c03bHandler(er *errs) mpx.Handler {
	return mpx.HandleFunc(func(ctx mpx.Context, ch mpx.Channel) status.Status {
		first, st := ch.Receive(ctx)
		if !st.OK() {
			return status.OK
		}
		h, ok := netfx.ParseHeader(first)
		if !ok {
			er.addf("server: first message of a channel has no readable header (%d bytes)", len(first))
			return status.OK
		}
		v, ok := c03bRegistry.Load(h.Chan)
		if !ok {
			er.addf("server: message for unknown channel id %d: %s", h.Chan, netfx.Describe(first))
			return status.OK
		}
		sc := v.(*sharedScript)
		if sc.Side == 0 {
			sc.recvAll(ctx, ch, first)
			return status.OK
		}
		// the client's hello opened the channel; the server lanes send
		sc.runLanes(ctx, ch, 1)
		return status.OK
	})
}

func (sc *sharedScript) runClient(conn mpx.Conn, er *errs) {
	defer func() {
		sc.mu.Lock()
		sc.done = true
		sc.mu.Unlock()
	}()
	ctx := ctxNone()
	ch, st := conn.Channel(ctx)
	if !st.OK() {
		er.addf("client: Channel(): %v", st)
		return
	}
	defer ch.Free()
	if sc.Side == 0 {
		sc.runLanes(ctx, ch, 0)
		// wait for the server to observe the end: its handler returns and closes the channel
		for {
			if _, st := ch.Receive(ctx); !st.OK() {
				return
			}
		}
	}
	hello := netfx.Make(netfx.Header{Conn: 0xffff, Chan: sc.ID, Dir: 0, Seq: 0}, 16)
	if st := ch.Send(ctx, hello); !st.OK() {
		er.addf("client: hello Send: %v", st)
		return
	}
	sc.recvAll(ctx, ch, nil)
}

// verify: per lane the received messages are seq 0,1,2,... in order with the right bytes;
// every Send that returned OK was delivered (the receiver read to the end status and never
// ended the channel itself); the closing payload arrives last when the close returned OK.
func (sc *sharedScript) verify() error {
	sc.mu.Lock()
	defer sc.mu.Unlock()
	dir := uint8(sc.Side)
	next := make([]int, len(sc.Lanes))
	sawClose := false
	for i, p := range sc.recv {
		h, ok := netfx.ParseHeader(p)
		if !ok {
			return fmt.Errorf("channel %d: received message %d has no readable header (%d bytes)", sc.ID, i, len(p))
		}
		if h.Chan != sc.ID || h.Dir != dir {
			return fmt.Errorf("channel %d: received a message of another channel or direction: %s", sc.ID, netfx.Describe(p))
		}
		if sawClose {
			return fmt.Errorf("channel %d: message %s received after the closing payload", sc.ID, netfx.Describe(p))
		}
		if h.Conn == closeLane {
			if err := netfx.Verify(p, netfx.Header{Conn: closeLane, Chan: sc.ID, Dir: dir}, sc.ClosePay); err != nil || sc.ClosePay == 0 {
				return fmt.Errorf("channel %d: bad closing payload: %v", sc.ID, err)
			}
			sawClose = true
			continue
		}
		lane := int(h.Conn)
		if lane >= len(sc.Lanes) {
			return fmt.Errorf("channel %d: message from unknown lane: %s", sc.ID, netfx.Describe(p))
		}
		if int(h.Seq) != next[lane] {
			return fmt.Errorf("channel %d: lane %d delivered seq %d where seq %d was due (lost, duplicated or reordered); received so far: %s", sc.ID, lane, h.Seq, next[lane], sc.describeRecv())
		}
		if next[lane] >= len(sc.Lanes[lane]) {
			return fmt.Errorf("channel %d: lane %d delivered more messages than were sent", sc.ID, lane)
		}
		if err := netfx.Verify(p, netfx.Header{Conn: uint16(lane), Chan: sc.ID, Dir: dir, Seq: h.Seq}, sc.Lanes[lane][next[lane]]); err != nil {
			return fmt.Errorf("channel %d lane %d: %v", sc.ID, lane, err)
		}
		next[lane]++
	}
	if sc.end == "" {
		total := 0
		for _, n := range sc.okSent {
			total += n
		}
		if sc.Side == 0 && total == 0 && !(sc.closed == string(status.CodeOK) && sc.ClosePay > 0) {
			// the racing SendAndClose(nil) won before any Send: the channel carried no message,
			// the server handler had nothing to identify it by, nothing to verify
			return nil
		}
		return fmt.Errorf("channel %d: the receiver never identified the channel or never observed its end although %d Sends returned OK (close status %q, closing payload %d bytes)", sc.ID, total, sc.closed, sc.ClosePay)
	}
	for lane := range sc.Lanes {
		if next[lane] < sc.okSent[lane] {
			return fmt.Errorf("channel %d: lane %d: %d Sends returned OK but only %d messages were delivered before the end status %q (lane sizes %v, close raced=%v, close status %q); received: %s",
				sc.ID, lane, sc.okSent[lane], next[lane], sc.end, sc.Lanes[lane], sc.Race, sc.closed, sc.describeRecv())
		}
	}
	if sc.closed == string(status.CodeOK) && sc.ClosePay > 0 && !sawClose {
		return fmt.Errorf("channel %d: SendAndClose returned OK but its %d-byte payload was not delivered before the end", sc.ID, sc.ClosePay)
	}
	return nil
}

func (sc *sharedScript) describeRecv() string {
	s := ""
	for i, p := range sc.recv {
		if i > 12 {
			s += " …"
			break
		}
		if h, ok := netfx.ParseHeader(p); ok {
			s += fmt.Sprintf(" lane%d#%d(%dB)", h.Conn, h.Seq, len(p))
		} else {
			s += fmt.Sprintf(" ?(%dB)", len(p))
		}
	}
	return s
}

func TestC03_SharedChannelSenders(t *testing.T) {
	ev.Rule(c03, "rapid, concurrent senders on ONE channel: configuration as in Delivery; 1..6 channels, each with 2..4 lanes (goroutines) calling Send concurrently on the same channel from the client or from the server handler, starting with the very first Sends of a fresh channel, message sizes 16 B..1 MiB relative to the window with one lane leading with a large message; the channel is closed by SendAndClose (with or without payload) either after the lanes joined or racing them from lane 0; the receiver reads to the end status; oracle: per lane seq 0,1,2.. in order with exact bytes, every Send that returned OK is delivered before the end, closing payload last; non-trivial = >=2 lanes with >=1 message each")
	ev.CheckScaled(t, c03, 1, 2, func(rt *rapid.T) {
		cfg := drawConfig(rt)
		cfg.Sched = drawSched(rt)
		w := cfg.effWindow()
		n := rapid.IntRange(1, 6).Draw(rt, "channels")
		var scripts []*sharedScript
		for i := 0; i < n; i++ {
			sc := &sharedScript{ID: chanSeq.Add(1), Side: rapid.IntRange(0, 1).Draw(rt, "side"), Race: rapid.Bool().Draw(rt, "race")}
			lanes := rapid.IntRange(2, 4).Draw(rt, "lanes")
			for l := 0; l < lanes; l++ {
				m := rapid.IntRange(0, 4).Draw(rt, "msgs")
				if l > 0 && m == 0 {
					m = 1
				}
				var sizes []int
				for k := 0; k < m; k++ {
					sz := drawSize(rt, w, "size")
					if k == 0 && rapid.IntRange(0, 2).Draw(rt, "lead") == 0 {
						sz = []int{70000, 1 << 20, 2 << 20}[rapid.IntRange(0, 2).Draw(rt, "leadsize")]
						if w < 1<<20 && sz > 8*w {
							sz = 8 * w
						}
					}
					if sz < 16 {
						sz = 16
					}
					sizes = append(sizes, sz)
				}
				sc.Lanes = append(sc.Lanes, sizes)
				sc.Stagger = append(sc.Stagger, rapid.IntRange(0, 3).Draw(rt, "stagger"))
			}
			if rapid.Bool().Draw(rt, "closepay") {
				sc.ClosePay = drawSize(rt, w, "closesize")
				if sc.ClosePay < 16 {
					sc.ClosePay = 16
				}
			}
			sc.okSent = make([]int, len(sc.Lanes))
			scripts = append(scripts, sc)
		}
		kase := &c03bCase{Config: cfg, Channels: scripts}
		f := runC03b(cfg, scripts)
		if f.key == "infra" {
			ev.InfraSkip(rt, c03, "%s", f.msg)
		}
		if f.key != "" {
			kase.Failure = f.msg
			ev.Violation(rt, c03, f.key, kase, "%s", f.msg)
		}
		var hp []any
		race, first := false, false
		for _, sc := range scripts {
			hp = append(hp, fmt.Sprint(sc.Side, sc.Lanes, sc.Race, sc.ClosePay))
			race = race || sc.Race
			if sc.Side == 0 {
				first = true
			}
		}
		hp = append(hp, fmt.Sprint(cfg))
		ev.Case(c03, ev.Hash(hp...), true, fmt.Sprintf("shared:close-races=%v", race), fmt.Sprintf("shared:concurrent-first-sends=%v", first))
		if ev.WantSample(c03) {
			ev.Sample(c03, kase)
		}
	})
}

func runC03b(cfg netConfig, scripts []*sharedScript) (f failure) {
	defer cfg.Sched.install()()
	withProcs(cfg.Procs, func() {
		log := netfx.NewLogger()
		er := &errs{}
		srv, err := netfx.StartServer(c03bHandler(er), log, cfg.options())
		if err != nil {
			panic(fmt.Sprintf("infrastructure: %v", err))
		}
		defer srv.Stop()
		for _, sc := range scripts {
			c03bRegistry.Store(sc.ID, sc)
		}
		defer func() {
			for _, sc := range scripts {
				c03bRegistry.Delete(sc.ID)
			}
		}()
		conn, st := mpx.Connect(ctxNone(), srv.Addr, log, cfg.options())
		if !st.OK() {
			f = failure{"infra", fmt.Sprintf("Connect: %v", st)}
			return
		}
		defer conn.Close()
		var wg sync.WaitGroup
		for _, sc := range scripts {
			wg.Add(1)
			go func(sc *sharedScript) {
				defer wg.Done()
				sc.runClient(conn, er)
			}(sc)
		}
		if !waitGroupTimeout(&wg, hangTimeout()) {
			state := ""
			for _, sc := range scripts {
				sc.mu.Lock()
				if !sc.done {
					state += fmt.Sprintf("[unfinished channel %d side=%d lanes=%v okSent=%v race=%v closed=%q received=%d end=%q] ", sc.ID, sc.Side, sc.Lanes, sc.okSent, sc.Race, sc.closed, len(sc.recv), sc.end)
				}
				sc.mu.Unlock()
			}
			f = failure{"shared:hang", "channels with concurrent senders did not finish within " + hangTimeout().String() + ": " + state + "\n" + goroutineDump()}
			return
		}
		// a side-0 script is verified from the server's record: wait until its handler saw the end
		deadline := time.Now().Add(ev.Bound(20 * time.Second))
		for _, sc := range scripts {
			for sc.Side == 0 {
				sc.mu.Lock()
				ended := sc.end != ""
				if !ended {
					total := 0
					for _, n := range sc.okSent {
						total += n
					}
					// nothing was sent: the handler cannot identify the channel (see verify)
					ended = total == 0 && !(sc.closed == string(status.CodeOK) && sc.ClosePay > 0)
				}
				sc.mu.Unlock()
				if ended || time.Now().After(deadline) {
					break
				}
				time.Sleep(time.Millisecond)
			}
		}
		if conn.Closed().IsSet() {
			f = failure{"shared:connection-closed", "the connection closed during the case: " + fmt.Sprint(log.ConnErrors())}
			return
		}
		if p := libraryPanicText(log); p != "" {
			f = failure{"library-panic", p}
			return
		}
		if e := er.first(); e != "" {
			f = failure{"shared:delivery", e}
			return
		}
		for _, sc := range scripts {
			if err := sc.verify(); err != nil {
				f = failure{"shared:delivery", err.Error()}
				return
			}
		}
	})
	return
}
