//go:build !verifdebug

package net

func libDebugDump() string { return "" }
func libDebugReset()       {}
