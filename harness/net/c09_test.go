package net

// C09 — transport failures terminate cleanly and are never reported as success.

import (
	"fmt"
	"os"
	"strings"
	"sync"
	"sync/atomic"
	"testing"
	"time"

	"github.com/basecomplextech/baselibrary/async"
	"github.com/basecomplextech/baselibrary/ref"
	"github.com/basecomplextech/baselibrary/status"
	"github.com/basecomplextech/baselibrary/units"
	"github.com/basecomplextech/spec/mpx"
	"github.com/basecomplextech/spec/rpc"
	"pgregory.net/rapid"

	"verifharness/ev"
	"verifharness/netfx"
)

const c09 = "C09"

const faultBound = 10 * time.Second

type c09env struct {
	mpxSrv  *netfx.Server
	rpcSrv  rpc.Server
	log     *netfx.RecLogger
	live    atomic.Int64 // handlers currently running
	started atomic.Int64
}

func newC09Env() (*c09env, error) {
	e := &c09env{log: netfx.NewLogger()}
	mh := mpx.HandleFunc(func(ctx mpx.Context, ch mpx.Channel) status.Status {
		e.live.Add(1)
		e.started.Add(1)
		defer e.live.Add(-1)
		first, st := ch.Receive(ctx)
		if !st.OK() || len(first) == 0 {
			return status.OK
		}
		switch first[0] {
		case 'B': // never reads again: the client's window fills up
			<-ctx.Wait()
			return status.OK
		case 'U': // upload sink: reads everything, then acknowledges the byte count
			total := len(first)
			for {
				m, st := ch.Receive(ctx)
				if !st.OK() {
					return status.OK
				}
				if len(m) == 1 && m[0] == 'Z' {
					break
				}
				total += len(m)
			}
			ch.SendAndClose(ctx, []byte(fmt.Sprintf("U%d", total)))
			return status.OK
		default: // echo until the end
			msg := first
			for {
				if st := ch.Send(ctx, msg); !st.OK() {
					return status.OK
				}
				m, st := ch.Receive(ctx)
				if !st.OK() {
					return status.OK
				}
				msg = m
			}
		}
	})
	opts := mpx.Default()
	srv, err := netfx.StartServer(mh, e.log, opts)
	if err != nil {
		return nil, err
	}
	e.mpxSrv = srv
	inner := c04Handler()
	rh := rpc.HandleFunc(func(ctx rpc.Context, ch rpc.ServerChannel) (ref.R[[]byte], status.Status) {
		e.live.Add(1)
		e.started.Add(1)
		defer e.live.Add(-1)
		return inner.Handle(ctx, ch)
	})
	e.rpcSrv = rpc.NewServer("127.0.0.1:0", rh, e.log, rpc.Default())
	if st := e.rpcSrv.Start(); !st.OK() {
		return nil, fmt.Errorf("rpc server: %v", st)
	}
	select {
	case <-e.rpcSrv.Listening().Wait():
	case <-time.After(10 * time.Second):
		return nil, fmt.Errorf("rpc server not listening")
	}
	return e, nil
}

func (e *c09env) close() {
	e.mpxSrv.Stop()
	<-e.rpcSrv.Stop()
}

// op is one public call made by a session.
type op struct {
	Name      string  `json:"call"`
	OK        bool    `json:"ok"`
	Status    string  `json:"status"`
	Justified bool    `json:"-"`
	Bad       string  `json:"problem,omitempty"`
	Secs      float64 `json:"seconds"`
	Optional  bool    `json:"may_block_by_design,omitempty"`
}

type observer struct {
	mu    sync.Mutex
	ops   []op
	ctxs  []async.Context
	conns []mpx.Conn
	start time.Time
}

func (o *observer) record(name string, st status.Status, justified bool, bad string, began time.Time) {
	o.mu.Lock()
	o.ops = append(o.ops, op{Name: name, OK: st.OK(), Status: st.String(), Justified: justified, Bad: bad, Secs: time.Since(began).Seconds()})
	o.mu.Unlock()
}

type session struct {
	name string
	rpc  bool
	auto bool
	opts func() mpx.Options
	run  func(e *c09env, cl any, o *observer)
	// offsets overrides the enumeration of cut offsets for a direction carrying n bytes (nil = default rule)
	offsets func(dir, n int) []int
}

func defaultOpts() mpx.Options {
	o := mpx.Default()
	o.Compression = false
	o.ClientMaxConns = 1
	o.ClientDialTimeout = 2 * time.Second
	return o
}

var c09sessions = []session{
	{name: "mpx-echo", opts: defaultOpts, run: func(e *c09env, cl any, o *observer) {
		c := cl.(mpx.Client)
		began := time.Now()
		conn, st := c.Conn(ctxNone())
		o.record("Conn", st, true, "", began)
		if !st.OK() {
			return
		}
		began = time.Now()
		ch, st := conn.Channel(ctxNone())
		o.record("Channel", st, true, "", began)
		if !st.OK() {
			return
		}
		defer ch.Free()
		o.ctxs = append(o.ctxs, ch.Context())
		for i := 0; i < 3; i++ {
			p := append([]byte("E"), netfx.Make(netfx.Header{Chan: 1, Seq: uint32(i)}, 40+i*7)...)
			began = time.Now()
			st := ch.Send(ctxNone(), p)
			o.record(fmt.Sprintf("Send[%d]", i), st, true, "", began)
			if !st.OK() {
				return
			}
			began = time.Now()
			m, st := ch.Receive(ctxNone())
			bad := ""
			if st.OK() && string(m) != string(p) {
				bad = fmt.Sprintf("Receive returned OK with %d bytes that are not the echo of message %d (partial or foreign frame)", len(m), i)
			}
			o.record(fmt.Sprintf("Receive[%d]", i), st, true, bad, began)
			if !st.OK() {
				return
			}
		}
		began = time.Now()
		st = ch.SendAndClose(ctxNone(), []byte("Ebye"))
		o.record("SendAndClose", st, true, "", began)
	}},
	{name: "mpx-window-blocked", opts: func() mpx.Options { o := defaultOpts(); o.ChannelWindowSize = 64; return o }, run: func(e *c09env, cl any, o *observer) {
		c := cl.(mpx.Client)
		began := time.Now()
		ch, st := c.Channel(ctxNone())
		o.record("Channel", st, true, "", began)
		if !st.OK() {
			return
		}
		defer ch.Free()
		o.ctxs = append(o.ctxs, ch.Context())
		for i := 0; i < 6; i++ { // the 64-byte window admits about three 30-byte messages; later Sends block until the cut
			began = time.Now()
			st := ch.Send(async.TimeoutContext(250*time.Millisecond), append([]byte("B"), make([]byte, 29)...))
			bad := ""
			if st.OK() && i >= 4 {
				bad = fmt.Sprintf("Send[%d] returned OK although the peer never consumed anything (window 64, 30-byte messages)", i)
			}
			o.record(fmt.Sprintf("Send[%d]", i), st, true, bad, began)
			if i >= 2 {
				o.mu.Lock()
				o.ops[len(o.ops)-1].Optional = true // blocks by design once the window is exhausted
				o.mu.Unlock()
			}
			if !st.OK() {
				return
			}
		}
	}},
	{name: "mpx-compressed-large", opts: func() mpx.Options { o := defaultOpts(); o.Compression = true; return o }, run: func(e *c09env, cl any, o *observer) {
		c := cl.(mpx.Client)
		began := time.Now()
		ch, st := c.Channel(ctxNone())
		o.record("Channel", st, true, "", began)
		if !st.OK() {
			return
		}
		defer ch.Free()
		o.ctxs = append(o.ctxs, ch.Context())
		p := append([]byte("E"), netfx.Make(netfx.Header{Chan: 2}, 30000)...)
		began = time.Now()
		st = ch.Send(ctxNone(), p)
		o.record("Send[large]", st, true, "", began)
		if !st.OK() {
			return
		}
		began = time.Now()
		m, st := ch.Receive(ctxNone())
		bad := ""
		if st.OK() && string(m) != string(p) {
			bad = fmt.Sprintf("Receive returned OK with %d bytes that are not the echo (partial frame delivered)", len(m))
		}
		o.record("Receive[large]", st, true, bad, began)
	}},
	{name: "mpx-bulk-upload", opts: defaultOpts, offsets: func(dir, n int) []int {
		if dir == 1 {
			return nil // the server->client stream is short (handshake, window updates, acknowledgement): default rule
		}
		offs := []int{0, 1, 9, 10, 11, 30, 60, 100, 4000, 1 << 18, 1 << 20, 5 << 20, 9 << 20, 17 << 20, n - 300, n - 10, n - 1}
		return offs
	}, run: func(e *c09env, cl any, o *observer) {
		// 24 MiB in 256 KiB messages through the default 16 MiB window: at any moment megabytes are pending in
		// the write queue and the socket buffers, so a peer that stops draining leaves the send loop inside a write
		c := cl.(mpx.Client)
		began := time.Now()
		ch, st := c.Channel(ctxNone())
		o.record("Channel", st, true, "", began)
		if !st.OK() {
			return
		}
		defer ch.Free()
		o.ctxs = append(o.ctxs, ch.Context())
		chunk := append([]byte("U"), make([]byte, 256<<10-1)...)
		const chunks = 96
		began = time.Now()
		for i := 0; i < chunks; i++ {
			if st = ch.Send(ctxNone(), chunk); !st.OK() {
				break
			}
		}
		o.record("Send[96 x 256 KiB]", st, true, "", began)
		if !st.OK() {
			return
		}
		began = time.Now()
		st = ch.Send(ctxNone(), []byte("Z"))
		o.record("Send[end marker]", st, true, "", began)
		if !st.OK() {
			return
		}
		began = time.Now()
		m, st := ch.Receive(ctxNone())
		bad := ""
		if st.OK() && string(m) != fmt.Sprintf("U%d", chunks*len(chunk)) {
			bad = fmt.Sprintf("upload acknowledged with %q, sent %d bytes", m, chunks*len(chunk))
		}
		o.record("Receive[ack]", st, true, bad, began)
	}},
	{name: "rpc-unary", rpc: true, opts: defaultOpts, run: func(e *c09env, cl any, o *observer) {
		c := cl.(rpc.Client)
		for i := 0; i < 2; i++ {
			k := &call{ID: chanSeq.Add(1), Kind: kindUnary, Code: "ok", ResultSize: 100}
			c04calls.Store(k.ID, k)
			began := time.Now()
			bad := runCall(c, k)
			handled := k.handled.Load()
			st := status.OK
			if bad != "" {
				st = status.Newf("observed", "%s", bad)
			}
			// runCall already checks: OK only with exactly this call's result; here: OK requires that the handler ran
			problem := ""
			if bad == "" && handled != 1 {
				problem = fmt.Sprintf("Request returned OK but the handler ran %d times", handled)
			}
			o.record(fmt.Sprintf("Request[%d]", i), st, true, problem, began)
			c04calls.Delete(k.ID)
			if bad != "" {
				return
			}
		}
	}},
	{name: "rpc-stream-auto", rpc: true, auto: true, opts: defaultOpts, run: func(e *c09env, cl any, o *observer) {
		c := cl.(rpc.Client)
		k := &call{ID: chanSeq.Add(1), Kind: kindBidi, Code: "ok", ResultSize: 16, Up: 4, Down: 4, MsgSize: 50}
		c04calls.Store(k.ID, k)
		defer c04calls.Delete(k.ID)
		began := time.Now()
		bad := runCall(c, k)
		st := status.OK
		if bad != "" {
			st = status.Newf("observed", "%s", bad)
		}
		problem := ""
		if bad == "" && k.handled.Load() != 1 {
			problem = "streaming call returned OK but the handler did not run exactly once"
		}
		o.record("Channel+stream+Response", st, true, problem, began)
	}},
}

type c09case struct {
	Session string    `json:"session"`
	Dir     string    `json:"direction"`
	Offset  int       `json:"cut_after_bytes"`
	Kind    string    `json:"fault"`
	Ops     []op      `json:"calls"`
	Failure string    `json:"failure,omitempty"`
	Sched   schedPlan `json:"schedule_perturbation"`
	Trap    string    `json:"trap,omitempty"`
}

var cutKinds = []struct {
	k    netfx.CutKind
	name string
}{{netfx.CutFIN, "FIN"}, {netfx.CutRST, "RST"}, {netfx.CutHalf, "half-close"}, {netfx.CutStall, "stall-then-RST"}, {netfx.CutHalfBlackhole, "half-close-then-deaf"}}

func (e *c09env) newClient(s session, addr string) (any, func()) {
	o := s.opts()
	mode := mpx.ClientMode_OnDemand
	if s.auto {
		mode = mpx.ClientMode_AutoConnect
	}
	if s.rpc {
		c := rpc.NewClient(addr, mode, netfx.NewLogger(), o)
		return c, func() { c.Close() }
	}
	c := mpx.NewClient(addr, mode, netfx.NewLogger(), o)
	return c, func() { c.Close() }
}

func (e *c09env) backend(s session) string {
	if s.rpc {
		return e.rpcSrv.Address()
	}
	return e.mpxSrv.Addr
}

func disconnectedFlag(cl any, isRPC bool) bool {
	if isRPC {
		return cl.(rpc.Client).Disconnected().IsSet()
	}
	return cl.(mpx.Client).Disconnected().IsSet()
}

type presetClient struct {
	cl    any
	close func()
}

// runFaulted runs one session under a plan and applies the oracle; returns a failure or "".
func (e *c09env) runFaulted(s session, plan netfx.Plan, kase *c09case) (f failure, interesting bool) {
	px, err := netfx.NewProxy(e.backend(s))
	if err != nil {
		panic("infrastructure: " + err.Error())
	}
	defer px.Close()
	libDebugReset()
	px.SetPlan(plan)
	px.Hold()
	defer px.Release()
	var preset *presetClient
	if strings.Contains(kase.Trap, "point 19") {
		// connect() starts the routine and then registers it: hold the caller between the two for the first
		// connect, long enough for a loopback dial to complete and the routine to finish
		disarm := setTrap(mpx.VerifPointClientRoutineRun, func() { time.Sleep(20 * time.Millisecond) })
		defer func() {
			if disarm() {
				ev.Label(c09, "first-connect-routine-registered-late", 1)
			}
		}()
	} else if kase.Trap != "" {
		// the first connect routine of the client is held between "connection goroutine started" and
		// "connection registered"; the proxy starts forwarding at that moment, so a fault inside the
		// handshake closes the connection before it is registered
		trapDone := make(chan struct{})
		disarm := setTrap(mpx.VerifPointClientConnStarted, func() {
			px.Release()
			time.Sleep(30 * time.Millisecond)
			close(trapDone)
		})
		defer func() {
			if disarm() {
				ev.Label(c09, "connect-routine-held-during-handshake-fault", 1)
			}
		}()
		// No call is made on the client until it has dialled again on its own: any call would go through
		// the client's slow path and reconnect on demand, which is not what "reconnects by itself" means.
		cl0, close0 := e.newClient(s, px.Addr())
		select {
		case <-trapDone:
			if px.CutAt.Load() != 0 {
				for dl := time.Now().Add(5 * time.Second); px.Accepted.Load() < 2; {
					if time.Now().After(dl) {
						close0()
						return failure{"no-auto-reconnect", "the first connection of an auto-connect client died during the handshake; no call was made, and the client did not dial again by itself within 5 s"}, true
					}
					time.Sleep(time.Millisecond)
				}
			}
		case <-time.After(2 * time.Second):
			// the connect routine never came by (an auto-connect client dials as soon as it is created):
			// the run continues as an ordinary one
			ev.Label(c09, "connect-routine-trap-not-reached", 1)
		}
		preset = &presetClient{cl0, close0}
	}
	var cl any
	var closeClient func()
	if preset != nil {
		cl, closeClient = preset.cl, preset.close
	} else {
		cl, closeClient = e.newClient(s, px.Addr())
	}
	o := &observer{start: time.Now()}
	done := make(chan struct{})
	go func() {
		defer close(done)
		// establish the (single) connection first and remember the object, so that its
		// closed flag and contexts can be checked after the fault
		var mc mpx.Client
		if s.rpc {
			mc = cl.(rpc.Client).Unwrap()
		} else {
			mc = cl.(mpx.Client)
		}
		// The proxy holds the stream (no byte forwarded, so no fault and no reconnect yet) until
		// the connection object is recorded: Conn() returns as soon as the dial succeeds, and a
		// counter of accepted connections read afterwards can lag behind a reconnect under load,
		// in which case a healthy replacement would wrongly be expected to close.
		if conn, st := mc.Conn(async.TimeoutContext(faultBound)); st.OK() && preset == nil {
			o.conns = append(o.conns, conn)
		}
		px.Release()
		s.run(e, cl, o)
	}()
	select {
	case <-done:
	case <-time.After(faultBound + 20*time.Second):
		closeClient()
		return failure{"call-hangs", "session did not return: a call blocked on the failed connection never returned:\n" + goroutineDump()}, true
	}
	cutAt := px.CutAt.Load()
	kase.Ops = o.ops
	faulted := cutAt != 0
	// 1+2: no OK that is not justified, every call returned in bounded time after the cut
	for _, p := range o.ops {
		if p.Bad != "" {
			return failure{"ok-not-justified", p.Name + ": " + p.Bad}, faulted
		}
	}
	if faulted {
		cut := time.Unix(0, cutAt)
		if late := time.Since(cut); late > faultBound+3*time.Second {
			return failure{"slow-failure", fmt.Sprintf("calls returned %.1fs after the fault", late.Seconds())}, true
		}
		// 3: contexts cancelled, connection closed
		deadline := time.Now().Add(faultBound)
		for _, c := range o.conns {
			for !c.Closed().IsSet() {
				if time.Now().After(deadline) {
					return failure{"connection-not-closed", "Conn.Closed() not set " + faultBound.String() + " after the transport failed"}, true
				}
				time.Sleep(200 * time.Microsecond)
			}
			if !c.Context().Done() {
				// connection context is cancelled as part of close
				select {
				case <-c.Context().Wait():
				case <-time.After(faultBound):
					return failure{"context-not-cancelled", "connection context not cancelled after the transport failed"}, true
				}
			}
			// a call issued afterwards on that connection must not succeed
			if ch, st := c.Channel(ctxNone()); st.OK() {
				st2 := ch.Send(async.TimeoutContext(faultBound), []byte("Eafter"))
				var st3 status.Status
				if st2.OK() {
					_, st3 = ch.Receive(async.TimeoutContext(faultBound))
				}
				ch.Free()
				if st2.OK() && st3.OK() {
					return failure{"ok-after-failure", "a channel opened on the failed connection completed a round trip"}, true
				}
			}
		}
		for _, cx := range o.ctxs {
			select {
			case <-cx.Wait():
			case <-time.After(faultBound):
				return failure{"context-not-cancelled", "channel context not cancelled " + faultBound.String() + " after the transport failed"}, true
			}
		}
	} else {
		// the plan never triggered (offset beyond the session): everything must have succeeded
		for _, p := range o.ops {
			if !p.OK && !p.Optional {
				return failure{"control-failed", fmt.Sprintf("no fault was injected but %s returned %s", p.Name, p.Status)}, false
			}
		}
	}
	// 7: recovery once the path is healed
	if faulted {
		px.SetPlan(netfx.Plan{})
		if plan.Kind == netfx.CutHalfBlackhole {
			px.EndBlackholes() // the deaf connection would otherwise linger for BlackholeFor
		}
		// the fault must be complete before recovery is judged (a stalled or half-closed
		// connection is torn down a little later)
		for deadline := time.Now().Add(faultBound); px.PlannedLive() != 0 && time.Now().Before(deadline); {
			time.Sleep(200 * time.Microsecond)
		}
		if s.auto {
			var flag async.Flag
			if s.rpc {
				flag = cl.(rpc.Client).Connected()
			} else {
				flag = cl.(mpx.Client).Connected()
			}
			select {
			case <-flag.Wait():
			case <-time.After(5 * time.Second):
				if d := libDebugDump(); d != "" {
					os.WriteFile("/tmp/verif-mut/c09_libdebug.txt", []byte(d), 0o644)
				}
				diag := fmt.Sprintf(" [proxy: accepted=%d live=%d planned-live=%d; client flags: connected=%v disconnected=%v]\n%s", px.Accepted.Load(), px.Live.Load(), px.PlannedLive(), flag.IsSet(), disconnectedFlag(cl, s.rpc), goroutineDump())
				closeClient()
				return failure{"no-auto-reconnect", "auto-connect client did not reconnect by itself within 5 s after the path was healed" + diag}, true
			}
		}
		o2 := &observer{}
		done2 := make(chan struct{})
		go func() { defer close(done2); s.run(e, cl, o2) }()
		select {
		case <-done2:
		case <-time.After(faultBound + 20*time.Second):
			closeClient()
			return failure{"call-hangs", "session after recovery did not return"}, true
		}
		for _, p := range o2.ops {
			if (!p.OK && !p.Optional) || p.Bad != "" {
				closeClient()
				return failure{"no-recovery", fmt.Sprintf("after the server was reachable again, %s returned %s %s", p.Name, p.Status, p.Bad)}, true
			}
		}
	}
	closeClient()
	px.Close()
	// 4: handlers released
	deadline := time.Now().Add(faultBound)
	for e.live.Load() != 0 {
		if time.Now().After(deadline) {
			return failure{"handler-not-released", fmt.Sprintf("%d server handlers still running %v after the connection was lost and the client closed", e.live.Load(), faultBound)}, faulted
		}
		time.Sleep(200 * time.Microsecond)
	}
	// 5: no library panic
	if p := libraryPanicText(e.log); p != "" {
		return failure{"library-panic", p}, faulted
	}
	// 6: no per-connection goroutine left behind
	if gs := netfx.WaitNoModuleGoroutines(faultBound); len(gs) > 0 {
		return failure{"goroutine-leak", fmt.Sprintf("%d goroutines still run per-connection/per-channel code after everything was closed, e.g.:\n%s", len(gs), gs[0])}, faulted
	}
	return failure{}, faulted
}

// recordLengths runs the session without faults through the proxy and returns the byte counts.
func (e *c09env) recordLengths(s session) (n0, n1 int, err error) {
	px, perr := netfx.NewProxy(e.backend(s))
	if perr != nil {
		return 0, 0, perr
	}
	defer px.Close()
	cl, closeClient := e.newClient(s, px.Addr())
	o := &observer{}
	s.run(e, cl, o)
	for _, p := range o.ops {
		if !p.OK && !p.Optional {
			closeClient()
			return 0, 0, fmt.Errorf("fault-free %s: %s returned %s", s.name, p.Name, p.Status)
		}
	}
	time.Sleep(5 * time.Millisecond)
	n0, n1 = int(px.Bytes[0].Load()), int(px.Bytes[1].Load())
	closeClient()
	return
}

func TestC09_FaultEnumeration(t *testing.T) {
	shard, shards := ev.Shard()
	e, err := newC09Env()
	if err != nil {
		t.Fatalf("infrastructure: %v", err)
	}
	defer e.close()
	ev.Rule(c09, "fault enumeration: six sessions (raw mpx echo, window-blocked sender, compressed 30 KB frames, 24 MiB bulk upload, unary RPC on an on-demand client, bidirectional streaming RPC on an auto-connect client) are first recorded fault-free through a counting TCP proxy; then for every byte offset k of each direction (all offsets when the direction carries <= 400 bytes, otherwise handshake bytes, every 7th offset and the last 64) and each fault kind {FIN, RST, half-close, stall 40 ms then RST, half-close towards the client while the proxy goes deaf (the client's pending writes block)} the session is re-run with the connection cut after exactly k bytes; oracle: every call returns within 10 s of the fault, none returns OK for work the peer did not do (echo payloads and RPC results are self-describing), no partial frame is delivered, connection and channel contexts are cancelled, server handlers return, no library panic, no per-connection goroutine survives, and the same client completes the session again once the path is healed (on demand, or by itself for the auto-connect client); non-trivial = the cut really happened (offset within the session); distinct by (session, direction, offset, kind)")
	type job struct {
		s    int
		dir  int
		off  int
		kind int
	}
	var jobs []job
	for si, s := range c09sessions {
		n0, n1, err := e.recordLengths(s)
		if err != nil {
			t.Fatalf("infrastructure: %v", err)
		}
		ev.Note(c09, fmt.Sprintf("session %s: %d bytes client->server, %d bytes server->client", s.name, n0, n1))
		for dir, n := range []int{n0, n1} {
			var offs []int
			if s.offsets != nil && s.offsets(dir, n) != nil {
				for _, k := range s.offsets(dir, n) {
					if k >= 0 {
						offs = append(offs, k)
					}
				}
			} else if n <= 400 || ev.Thorough() {
				for k := 0; k <= n && k <= 3000; k++ {
					offs = append(offs, k)
				}
				for k := 3000; k <= n; k += 53 {
					offs = append(offs, k)
				}
			} else {
				for k := 0; k <= n; k++ {
					if k < 80 || k%7 == 0 || k > n-64 {
						offs = append(offs, k)
					}
				}
			}
			offs = append(offs, n+10) // control: beyond the session
			for _, k := range offs {
				kinds := []int{k % len(cutKinds)}
				if ev.Thorough() || k < 64 {
					kinds = []int{0, 1, 2, 3, 4}
				}
				for _, kd := range kinds {
					if cutKinds[kd].k == netfx.CutHalfBlackhole && dir == 0 {
						// FIN towards the server while the client hears nothing and is not read from: for the
						// client this is a silent peer, not a transport failure it could detect
						continue
					}
					jobs = append(jobs, job{si, dir, k, kd})
				}
			}
		}
	}
	var n, nt int64
	for i, j := range jobs {
		if i%shards != shard {
			continue
		}
		s := c09sessions[j.s]
		if only := os.Getenv("VERIF_C09_ONLY"); only != "" && !strings.Contains(s.name+"/"+cutKinds[j.kind].name+"/"+fmt.Sprint(j.dir)+"/"+fmt.Sprint(j.off)+"/", only) {
			continue
		}
		plan := netfx.Plan{Kind: cutKinds[j.kind].k, Dir: j.dir, After: j.off, StallFor: 40 * time.Millisecond}
		kase := &c09case{Session: s.name, Dir: []string{"client->server", "server->client"}[j.dir], Offset: j.off, Kind: cutKinds[j.kind].name}
		// two of three fault runs also carry a perturbation plan derived from the job number
		// (seeded yields at the library's schedule points: the connection can for instance die
		// between the start of its goroutine and its registration with the client)
		if i%3 != 0 {
			kase.Sched = schedPlan{Seed: mix64(uint64(i)), Level: 1 + (i/3)%2, Points: 0xffffffff}
			if (i/6)%2 == 1 {
				kase.Sched.Points = 1 << uint(1+(i/12)%16)
			}
		}
		remove := kase.Sched.install()
		// auto-connect client and a cut inside the handshake: in every other run the connect routine is held
		// between "connection goroutine started" and "connection registered" (schedule point 16) long enough for
		// the handshake to fail and the connection to close first
		if s.auto && j.off < 80 && i%2 == 0 {
			kase.Trap = "connect routine held 30 ms at schedule point 16 while the stream (and the fault) proceeds"
		} else if s.auto && i%4 == 1 {
			kase.Trap = "registration of the first connect routine delayed 20 ms at schedule point 19 (the routine can finish first)"
		}
		t0 := time.Now()
		f, faulted := e.runFaulted(s, plan, kase)
		remove()
		ev.Label(c09, "ms:"+s.name+"/"+cutKinds[j.kind].name+map[bool]string{true: "/trap", false: ""}[kase.Trap != ""], time.Since(t0).Milliseconds())
		if f.key != "" {
			kase.Failure = f.msg
			ev.Violation(t, c09, f.key, kase, "%s cut %s after %d bytes (%s): %s", s.name, kase.Dir, j.off, kase.Kind, f.msg)
		}
		n++
		if faulted {
			nt++
		}
		ev.Label(c09, "session:"+s.name, 1)
		ev.Label(c09, "fault:"+kase.Kind, 1)
		if n == 1 || n%200 == 0 {
			ev.Sample(c09, kase)
		}
	}
	ev.CaseEnum(c09, n, nt, "fault-runs")
	for _, s := range c09sessions {
		ev.Require(c09, "session:"+s.name)
	}
}

func TestC09_FaultSequences(t *testing.T) {
	e, err := newC09Env()
	if err != nil {
		t.Fatalf("infrastructure: %v", err)
	}
	defer e.close()
	ev.Rule(c09, "fault-then-recover sequences: 1..4 consecutive faulted runs with drawn session, direction, offset and kind on fresh proxies against the same long-lived servers (pooled objects are reused across faults), same oracle after each")
	ev.CheckScaled(t, c09, 1, 4, func(rt *rapid.T) {
		defer drawSched(rt).install()() // seeded yields at the library's schedule points
		k := rapid.IntRange(1, 4).Draw(rt, "faults")
		for i := 0; i < k; i++ {
			s := c09sessions[rapid.IntRange(0, len(c09sessions)-1).Draw(rt, "session")]
			plan := netfx.Plan{Kind: cutKinds[rapid.IntRange(0, 3).Draw(rt, "kind")].k, Dir: rapid.IntRange(0, 1).Draw(rt, "dir"), After: rapid.IntRange(0, 700).Draw(rt, "offset"), StallFor: time.Duration(rapid.IntRange(1, 60).Draw(rt, "stallms")) * time.Millisecond}
			kase := &c09case{Session: s.name, Dir: []string{"client->server", "server->client"}[plan.Dir], Offset: plan.After, Kind: fmt.Sprint(plan.Kind)}
			f, faulted := e.runFaulted(s, plan, kase)
			if f.key != "" {
				kase.Failure = f.msg
				ev.Violation(rt, c09, f.key, kase, "%s cut %s after %d bytes: %s", s.name, kase.Dir, plan.After, f.msg)
			}
			ev.Case(c09, ev.Hash("seq", s.name, plan.Dir, plan.After, int(plan.Kind), i), faulted, "sequence-run")
		}
	})
	_ = units.Bytes(0)
}
