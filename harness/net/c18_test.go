package net

// C18 (net part) — channel states, handlers and RPC call states recycled through pools
// never leak state between uses or goroutines.

import (
	"fmt"
	"sync"
	"testing"
	"time"

	"github.com/basecomplextech/spec/rpc"
	"pgregory.net/rapid"

	"verifharness/ev"
	"verifharness/netfx"
)

const c18 = "C18"

func TestC18_NetPools(t *testing.T) {
	ev.Rule(c18, "net part: 2..6 independent C03 delivery scenarios (different windows 1 byte..64 KiB, early ends, closes) and a C04 call plan (with failing and panicking handlers, unread responses) run concurrently in one process so that channel states, channel handlers, RPC call states, request states and writers are recycled across connections with different settings; each scenario must satisfy exactly the oracle it satisfies alone (differential against its sequential specification); the thorough tier runs under the race detector; non-trivial = >=3 concurrent scenarios with >=2 distinct windows; distinct by scenario-set hash")
	log := netfx.NewLogger()
	srv := rpc.NewServer("127.0.0.1:0", c04Handler(), log, rpc.Default())
	if st := srv.Start(); !st.OK() {
		t.Fatalf("infrastructure: %v", st)
	}
	defer func() { <-srv.Stop() }()
	select {
	case <-srv.Listening().Wait():
	case <-time.After(10 * time.Second):
		t.Fatalf("infrastructure: rpc server not listening")
	}
	ev.CheckScaled(t, c18, 1, 4, func(rt *rapid.T) {
		defer drawSched(rt).install()() // seeded yields at the library's schedule points
		k := rapid.IntRange(2, 6).Draw(rt, "scenarios")
		type scen struct {
			cfg     netConfig
			scripts []*chanScript
			fail    failure
		}
		var scens []*scen
		windows := map[int]bool{}
		var hp []any
		for i := 0; i < k; i++ {
			cfg := drawConfig(rt)
			cfg.Procs = 0
			if cfg.Window == 0 {
				cfg.Window = 65536
			}
			windows[cfg.Window] = true
			sc := &scen{cfg: cfg, scripts: drawScripts(rt, cfg, 1)}
			if len(sc.scripts) > 8 {
				sc.scripts = sc.scripts[:8]
			}
			scens = append(scens, sc)
			hp = append(hp, fmt.Sprint(cfg), len(sc.scripts))
		}
		// rpc plan
		ro := rpc.Default()
		ro.ClientDialTimeout = 30 * time.Second
		cl := rpc.NewClient(srv.Address(), rpc.ClientMode_OnDemand, netfx.NewLogger(), ro)
		defer cl.Close()
		nc := rapid.IntRange(1, 24).Draw(rt, "ncalls")
		var calls []*call
		for i := 0; i < nc; i++ {
			c := &call{ID: chanSeq.Add(1), Kind: rapid.IntRange(0, 4).Draw(rt, "kind"), Code: []string{"ok", "ok", "error", "app_7", "not_found"}[rapid.IntRange(0, 4).Draw(rt, "code")],
				ResultSize: []int{0, 16, 100, 3000}[rapid.IntRange(0, 3).Draw(rt, "res")], Up: rapid.IntRange(0, 5).Draw(rt, "up"), Down: rapid.IntRange(0, 5).Draw(rt, "down"),
				MsgSize: []int{1, 16, 200}[rapid.IntRange(0, 2).Draw(rt, "msz")], Panic: rapid.IntRange(0, 9).Draw(rt, "panic") == 0, Early: rapid.IntRange(0, 5).Draw(rt, "early") == 0}
			if c.Code != "ok" {
				c.Message = "m" + c.Code
			}
			calls = append(calls, c)
			c04calls.Store(c.ID, c)
			hp = append(hp, c.Kind, c.Code, c.Panic)
		}
		defer func() {
			for _, c := range calls {
				c04calls.Delete(c.ID)
			}
		}()
		var wg sync.WaitGroup
		for _, sc := range scens {
			wg.Add(1)
			go func(sc *scen) { defer wg.Done(); sc.fail = runC03(sc.cfg, 1, sc.scripts) }(sc)
		}
		for _, c := range calls {
			wg.Add(1)
			go func(c *call) { defer wg.Done(); c.observed = runCall(cl, c) }(c)
		}
		if !waitGroupTimeout(&wg, hangTimeout()+60*time.Second) {
			ev.Violation(rt, c18, "net:hang", nil, "concurrent scenarios did not finish:\n%s", goroutineDump())
		}
		for i, sc := range scens {
			if sc.fail.key != "" {
				ev.Violation(rt, c18, "net:scenario-differs-from-sequential-spec", &c03case{Config: sc.cfg, Conns: 1, Channels: sc.scripts, Failure: sc.fail.msg}, "scenario %d (window %d) run concurrently with %d others: [%s] %s", i, sc.cfg.Window, k-1, sc.fail.key, sc.fail.msg)
			}
		}
		for _, c := range calls {
			if c.observed != "" {
				ev.Violation(rt, c18, "net:call-differs-from-sequential-spec", c, "rpc call %d (%s) run concurrently with %d delivery scenarios: %s", c.ID, kindNames[c.Kind], k, c.observed)
			}
		}
		ev.Case(c18, ev.Hash(hp...), k >= 3 && len(windows) >= 2, fmt.Sprintf("net:scenarios>=3=%v", k >= 3))
		if ev.WantSample(c18) {
			ev.Sample(c18, map[string]any{"concurrent_delivery_scenarios": k, "distinct_windows": len(windows), "rpc_calls": nc})
		}
	})
}

// TestC18_ServerLifecycle cycles servers through start/stop with and without traffic;
// its oracle is the race detector (thorough tier) plus clean start/stop.
func TestC18_ServerLifecycle(t *testing.T) {
	ev.Rule(c18, "server lifecycle: start/stop cycles of mpx and rpc servers with no connection, with an idle connection and with a finished echo, concurrently from several goroutines, each with a goroutine polling Server.Address() while its server stops; oracle: Start and Stop succeed, Address() never returns an empty string, in bounded time and (thorough tier) the race detector reports no unsynchronised access inside the module")
	ev.CheckScaled(t, c18, 1, 8, func(rt *rapid.T) {
		defer drawSched(rt).install()() // seeded yields at the library's schedule points
		g := rapid.IntRange(1, 4).Draw(rt, "goroutines")
		modes := make([]int, g)
		for i := range modes {
			modes[i] = rapid.IntRange(0, 2).Draw(rt, "mode")
		}
		var wg sync.WaitGroup
		er := &errs{}
		for i := 0; i < g; i++ {
			wg.Add(1)
			go func(mode int) {
				defer wg.Done()
				srv, err := netfx.StartServer(echoHandler(), netfx.NewLogger(), rpc.Default())
				if err != nil {
					er.addf("start: %v", err)
					return
				}
				switch mode {
				case 1:
					if p, err := netfx.DialRaw(srv.Addr); err == nil {
						p.ClientHandshake(false)
						defer p.Close()
					}
				case 2:
					if p, err := netfx.DialRaw(srv.Addr); err == nil {
						if _, err := p.ClientHandshake(true); err == nil {
							id := netfx.MakeID(1)
							p.WriteMsg(netfx.OpenMsg(id, 1<<20, []byte("x")))
							p.ReadFrame(boundArrive())
						}
						p.Close()
					}
				}
				// Address() is asked for concurrently with the shutdown (public API, any goroutine)
				pollDone := make(chan struct{})
				stopPoll := make(chan struct{})
				go func() {
					defer close(pollDone)
					for {
						select {
						case <-stopPoll:
							return
						default:
						}
						if a := srv.S.Address(); a == "" {
							er.addf("Address() returned an empty string")
							return
						}
						runtimeGosched()
					}
				}()
				if err := srv.Stop(); err != nil {
					er.addf("stop: %v", err)
				}
				close(stopPoll)
				<-pollDone
			}(modes[i])
		}
		if !waitGroupTimeout(&wg, hangTimeout()) {
			ev.Violation(rt, c18, "net:lifecycle-hang", nil, "server start/stop cycle did not finish:\n%s", goroutineDump())
		}
		if e := er.first(); e != "" {
			ev.Violation(rt, c18, "net:lifecycle", nil, "%s", e)
		}
		ev.Case(c18, ev.Hash("lifecycle", fmt.Sprint(modes)), g >= 2, "net:lifecycle")
	})
}
