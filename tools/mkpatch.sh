#!/bin/bash
# usage: tools/mkpatch.sh <out.diff> <python-edit-script>  : the script runs with cwd = a scratch worktree of /repo HEAD; its edits become <out.diff>
set -e
out=$1; script=$2
dir=/tmp/verif-mut/mk-$$
git -C /repo worktree prune
git -C /repo worktree add --detach -q "$dir" HEAD
(cd "$dir" && python3 "$script" && git diff > "$out")
git -C /repo worktree remove --force "$dir"
echo "wrote $out ($(grep -c '^[-+][^-+]' $out) changed lines)"
