package netfx

import (
	"bufio"
	"encoding/binary"
	"fmt"
	"io"
	"net"
	"sync"
	"time"

	spec "github.com/basecomplextech/spec"
	"github.com/pierrec/lz4/v4"

	"verifharness/gen"
	"verifharness/refcodec"
)

const ProtocolLine = "SpecMPX/1\n"

// pmpx codes and tags (proto/pmpx/mpx.spec).
const (
	CodeConnectRequest  = 1
	CodeConnectResponse = 2
	CodeBatch           = 3
	CodeOpen            = 10
	CodeClose           = 11
	CodeData            = 12
	CodeWindow          = 13
)

type ID [16]byte

func MakeID(n uint32) ID {
	var id ID
	binary.BigEndian.PutUint32(id[0:], 0x5eedface)
	binary.BigEndian.PutUint32(id[12:], n)
	return id
}

func msg(code int32, tag uint16, body *gen.Node) *gen.Node {
	return gen.Message(gen.F(1, gen.Int32(code)), gen.F(tag, body))
}

func idNode(id ID) *gen.Node { return &gen.Node{Kind: gen.KBin128, B: append([]byte(nil), id[:]...)} }

// Frame bodies (spec-encoded pmpx.Message), built with the harness' own encoder.
func OpenMsg(id ID, window int32, data []byte) *gen.Node {
	b := gen.Message(gen.F(1, idNode(id)), gen.F(2, gen.Int32(window)))
	if data != nil {
		b.Fields = append(b.Fields, gen.F(3, gen.Bytes(data)))
	}
	return msg(CodeOpen, 10, b)
}
func CloseMsg(id ID, data []byte) *gen.Node {
	return msg(CodeClose, 11, gen.Message(gen.F(1, idNode(id)), gen.F(2, gen.Bytes(data))))
}
func DataMsg(id ID, data []byte) *gen.Node {
	return msg(CodeData, 12, gen.Message(gen.F(1, idNode(id)), gen.F(2, gen.Bytes(data))))
}
func WindowMsg(id ID, delta int32) *gen.Node {
	return msg(CodeWindow, 13, gen.Message(gen.F(1, idNode(id)), gen.F(2, gen.Int32(delta))))
}
func BatchMsg(msgs ...*gen.Node) *gen.Node {
	return msg(CodeBatch, 4, gen.Message(gen.F(1, gen.List(msgs...))))
}
func ConnectRequestMsg(versions []int32, comps []int32) *gen.Node {
	vl, cl := gen.List(), gen.List()
	for _, v := range versions {
		vl.Elems = append(vl.Elems, gen.Int32(v))
	}
	for _, c := range comps {
		cl.Elems = append(cl.Elems, gen.Int32(c))
	}
	return msg(CodeConnectRequest, 2, gen.Message(gen.F(1, vl), gen.F(2, cl)))
}
func ConnectResponseMsg(ok bool, errText string, version, comp int32) *gen.Node {
	b := gen.Message(gen.F(1, gen.Bool(ok)))
	if errText != "" {
		b.Fields = append(b.Fields, gen.F(2, gen.String(errText)))
	}
	b.Fields = append(b.Fields, gen.F(10, gen.Int32(version)), gen.F(11, gen.Int32(comp)))
	return msg(CodeConnectResponse, 3, b)
}

func Encode(n *gen.Node) []byte { return refcodec.Encode(nil, n) }

// Frame is a received frame, parsed loosely.
type Frame struct {
	Raw    []byte
	Code   int32
	ID     ID
	Data   []byte
	Window int32 // open: window, window frame: delta
	Batch  []Frame
	// connect response
	OK      bool
	ErrText string
	Version int32
	Comp    int32
}

func ParseFrame(raw []byte) (Frame, error) {
	f := Frame{Raw: raw}
	m, _, err := spec.ParseMessage(raw)
	if err != nil {
		return f, err
	}
	f.Code = m.Int32(1)
	sub := func(tag uint16) spec.Message { return m.Message(tag) }
	switch f.Code {
	case CodeOpen:
		s := sub(10)
		copy(f.ID[:], s.Field(1)[:min(16, len(s.Field(1)))])
		b := s.Bin128(1)
		copy(f.ID[:8], b[0][:])
		copy(f.ID[8:], b[1][:])
		f.Window = s.Int32(2)
		f.Data = append([]byte(nil), s.Bytes(3)...)
	case CodeClose, CodeData:
		tag := uint16(11)
		if f.Code == CodeData {
			tag = 12
		}
		s := sub(tag)
		b := s.Bin128(1)
		copy(f.ID[:8], b[0][:])
		copy(f.ID[8:], b[1][:])
		f.Data = append([]byte(nil), s.Bytes(2)...)
	case CodeWindow:
		s := sub(13)
		b := s.Bin128(1)
		copy(f.ID[:8], b[0][:])
		copy(f.ID[8:], b[1][:])
		f.Window = s.Int32(2)
	case CodeBatch:
		l := sub(4).List(1)
		for i := 0; i < l.Len(); i++ {
			bf, err := ParseFrame(append([]byte(nil), l.GetBytes(i)...))
			if err != nil {
				return f, err
			}
			f.Batch = append(f.Batch, bf)
		}
	case CodeConnectResponse:
		s := sub(3)
		f.OK = s.Bool(1)
		f.ErrText = string(s.String(2))
		f.Version = s.Int32(10)
		f.Comp = s.Int32(11)
	}
	return f, nil
}

// Flat returns the frame or, for a batch, its members.
func (f Frame) Flat() []Frame {
	if f.Code == CodeBatch {
		return f.Batch
	}
	return []Frame{f}
}

// RawPeer speaks the wire protocol over a net.Conn.
type RawPeer struct {
	C   net.Conn
	br  *bufio.Reader
	r   io.Reader
	w   io.Writer
	lzw *lz4.Writer
	wmu sync.Mutex
	LZ4 bool
}

func NewRawPeer(c net.Conn) *RawPeer {
	br := bufio.NewReaderSize(c, 64<<10)
	return &RawPeer{C: c, br: br, r: br, w: c}
}

func DialRaw(addr string) (*RawPeer, error) {
	c, err := DialLoopback(addr, 5*time.Second)
	if err != nil {
		return nil, err
	}
	return NewRawPeer(c), nil
}

func (p *RawPeer) Close() { p.C.Close() }

// WriteBytes writes raw bytes (outside any compression stream) and nothing else.
func (p *RawPeer) WriteBytes(b []byte) error {
	p.wmu.Lock()
	defer p.wmu.Unlock()
	_, err := p.C.Write(b)
	return err
}

func (p *RawPeer) ReadLine(timeout time.Duration) (string, error) {
	p.C.SetReadDeadline(time.Now().Add(timeout))
	defer p.C.SetReadDeadline(time.Time{})
	return p.br.ReadString('\n')
}

// WriteFrame writes length prefix + body through the (possibly compressed) stream and flushes.
func (p *RawPeer) WriteFrame(body []byte) error {
	return p.WriteFrames(body)
}

func (p *RawPeer) WriteFrames(bodies ...[]byte) error {
	p.wmu.Lock()
	defer p.wmu.Unlock()
	var buf []byte
	for _, body := range bodies {
		var h [4]byte
		binary.BigEndian.PutUint32(h[:], uint32(len(body)))
		buf = append(buf, h[:]...)
		buf = append(buf, body...)
	}
	if _, err := p.w.Write(buf); err != nil {
		return err
	}
	if p.lzw != nil {
		return p.lzw.Flush()
	}
	return nil
}

func (p *RawPeer) WriteMsg(n *gen.Node) error { return p.WriteFrame(Encode(n)) }

// ReadFrameRaw reads one frame body.
func (p *RawPeer) ReadFrameRaw(timeout time.Duration) ([]byte, error) {
	p.C.SetReadDeadline(time.Now().Add(timeout))
	defer p.C.SetReadDeadline(time.Time{})
	var h [4]byte
	if _, err := io.ReadFull(p.r, h[:]); err != nil {
		return nil, err
	}
	n := binary.BigEndian.Uint32(h[:])
	if n > 64<<20 {
		return nil, fmt.Errorf("rawpeer: frame of %d bytes", n)
	}
	b := make([]byte, n)
	if _, err := io.ReadFull(p.r, b); err != nil {
		return nil, err
	}
	return b, nil
}

func (p *RawPeer) ReadFrame(timeout time.Duration) (Frame, error) {
	b, err := p.ReadFrameRaw(timeout)
	if err != nil {
		return Frame{}, err
	}
	return ParseFrame(b)
}

func (p *RawPeer) enableLZ4() {
	p.LZ4 = true
	p.r = lz4.NewReader(p.br)
	p.lzw = lz4.NewWriter(p.C)
	p.w = p.lzw
}

// ClientHandshake performs a well-formed client handshake. It returns the server's response frame.
func (p *RawPeer) ClientHandshake(compress bool) (Frame, error) {
	comps := []int32{}
	if compress {
		comps = []int32{1}
	}
	if err := p.WriteBytes([]byte(ProtocolLine)); err != nil {
		return Frame{}, err
	}
	if err := p.WriteFrame(Encode(ConnectRequestMsg([]int32{10}, comps))); err != nil {
		return Frame{}, err
	}
	line, err := p.ReadLine(5 * time.Second)
	if err != nil {
		return Frame{}, fmt.Errorf("read protocol line: %w", err)
	}
	if line != ProtocolLine {
		return Frame{}, fmt.Errorf("server protocol line %q", line)
	}
	f, err := p.ReadFrame(5 * time.Second)
	if err != nil {
		return Frame{}, fmt.Errorf("read connect response: %w", err)
	}
	if f.Code != CodeConnectResponse || !f.OK {
		return f, fmt.Errorf("server refused: %+v", f)
	}
	if f.Comp == 1 {
		p.enableLZ4()
	}
	return f, nil
}

// ServerHandshake performs the server side of the handshake on an accepted connection.
func (p *RawPeer) ServerHandshake(allowLZ4 bool) error {
	if err := p.WriteBytes([]byte(ProtocolLine)); err != nil {
		return err
	}
	line, err := p.ReadLine(5 * time.Second)
	if err != nil {
		return err
	}
	if line != ProtocolLine {
		return fmt.Errorf("client protocol line %q", line)
	}
	raw, err := p.ReadFrameRaw(5 * time.Second)
	if err != nil {
		return err
	}
	m, _, err := spec.ParseMessage(raw)
	if err != nil {
		return err
	}
	if m.Int32(1) != CodeConnectRequest {
		return fmt.Errorf("first frame code %d", m.Int32(1))
	}
	comp := int32(0)
	cl := m.Message(2).List(2)
	for i := 0; i < cl.Len(); i++ {
		if cl.Get(i).Int32() == 1 && allowLZ4 {
			comp = 1
		}
	}
	if err := p.WriteFrame(Encode(ConnectResponseMsg(true, "", 10, comp))); err != nil {
		return err
	}
	if comp == 1 {
		p.enableLZ4()
	}
	return nil
}

// ExpectEOF waits until the peer closes the connection (reads and discards everything).
func (p *RawPeer) ExpectEOF(timeout time.Duration) error {
	p.C.SetReadDeadline(time.Now().Add(timeout))
	defer p.C.SetReadDeadline(time.Time{})
	buf := make([]byte, 4096)
	for {
		_, err := p.br.Read(buf)
		if err != nil {
			if ne, ok := err.(net.Error); ok && ne.Timeout() {
				return fmt.Errorf("connection still open after %v", timeout)
			}
			return nil // EOF or reset: closed
		}
	}
}
