// Package ev is the evidence and violation registry shared by all checks.
//
// Every property body reports each generated case through Case (fingerprint, non-triviality,
// labels) and every oracle failure through Violation.  TestMain of each test package calls
// Main, which writes one JSON fragment per process to $VERIF_EV_OUT; the driver (/verif/check)
// merges fragments into /verif/evidence/<id>.json.
package ev

import (
	"encoding/binary"
	"encoding/json"
	"flag"
	"fmt"
	"hash/fnv"
	"os"
	"sort"
	"strconv"
	"strings"
	"sync"
	"sync/atomic"
	"testing"
	"time"

	"pgregory.net/rapid"
)

const hashCap = 250000 // retained distinct fingerprints per process and property

// TB is the subset of testing.TB / *rapid.T used here.
type TB interface {
	Helper()
	Fatalf(format string, args ...any)
	Logf(format string, args ...any)
}

type prop struct {
	Evaluations  int64            `json:"evaluations"`
	Nontrivial   int64            `json:"nontrivial"`
	Enumerated   int64            `json:"enumerated_distinct_nontrivial"` // distinct by construction
	Labels       map[string]int64 `json:"labels"`
	Required     []string         `json:"required"`
	Samples      []any            `json:"samples"`
	Violations   []violation      `json:"violations"`
	Rules        []string         `json:"rules"`
	Exhaustive   []string         `json:"exhaustive"`
	Short        []string         `json:"short"` // tests that ran fewer cases than planned
	Planned      map[string]int64 `json:"planned"`
	Notes        []string         `json:"notes"`
	HashOverflow bool             `json:"hash_overflow"`

	hashes     map[uint64]struct{}
	sampleSeen int64
}

type violation struct {
	Test    string `json:"test"`
	Key     string `json:"key"`
	Message string `json:"message"`
	Case    any    `json:"case,omitempty"`
	// first record of this (test,key) in the process: found with the full liveness bounds, before shrinking
	FirstMessage string `json:"first_message,omitempty"`
	FirstCase    any    `json:"first_case,omitempty"`
}

var (
	mu    sync.Mutex
	props = map[string]*prop{}
)

func get(id string) *prop {
	p := props[id]
	if p == nil {
		p = &prop{Labels: map[string]int64{}, Planned: map[string]int64{}, hashes: map[uint64]struct{}{}}
		props[id] = p
	}
	return p
}

// Tier returns "quick" or "thorough".
func Tier() string {
	if os.Getenv("VERIF_TIER") == "thorough" {
		return "thorough"
	}
	return "quick"
}

func Thorough() bool { return Tier() == "thorough" }

// Seed returns VERIF_SEED (default 1).
func Seed() uint64 {
	v, err := strconv.ParseUint(os.Getenv("VERIF_SEED"), 10, 64)
	if err != nil {
		return 1
	}
	return v
}

// Shard returns (index, count) of this process among the driver's shards.
func Shard() (int, int) {
	i, _ := strconv.Atoi(os.Getenv("VERIF_SHARD"))
	n, _ := strconv.Atoi(os.Getenv("VERIF_SHARDS"))
	if n <= 0 {
		return 0, 1
	}
	return i, n
}

// Known reports whether a finding key is listed as known for the property
// (passed by the driver in VERIF_KNOWN as "ID:key;ID:key").
func Known(id, key string) bool {
	for _, kv := range strings.Split(os.Getenv("VERIF_KNOWN"), ";") {
		if kv == id+":"+key {
			return true
		}
	}
	return false
}

// Rule records the generation / non-triviality rule text of a test.
func Rule(id, text string) {
	mu.Lock()
	defer mu.Unlock()
	p := get(id)
	for _, r := range p.Rules {
		if r == text {
			return
		}
	}
	p.Rules = append(p.Rules, text)
}

// Note records a free-text note in evidence.
func Note(id, text string) {
	mu.Lock()
	defer mu.Unlock()
	p := get(id)
	for _, r := range p.Notes {
		if r == text {
			return
		}
	}
	if len(p.Notes) < 64 {
		p.Notes = append(p.Notes, text)
	}
}

// Exhaustive records that a named finite space was enumerated completely.
func Exhaustive(id, what string) {
	mu.Lock()
	defer mu.Unlock()
	p := get(id)
	p.Exhaustive = append(p.Exhaustive, what)
}

// Require declares labels that must have at least one hit, otherwise the driver
// reports the check as broken (exit 2) rather than passed.
func Require(id string, labels ...string) {
	mu.Lock()
	defer mu.Unlock()
	p := get(id)
	for _, l := range labels {
		found := false
		for _, r := range p.Required {
			if r == l {
				found = true
			}
		}
		if !found {
			p.Required = append(p.Required, l)
		}
	}
}

// Case records one evaluated case.
func Case(id string, fingerprint uint64, nontrivial bool, labels ...string) {
	mu.Lock()
	defer mu.Unlock()
	p := get(id)
	p.Evaluations++
	if nontrivial {
		p.Nontrivial++
		if len(p.hashes) < hashCap {
			p.hashes[fingerprint] = struct{}{}
		} else if _, ok := p.hashes[fingerprint]; !ok {
			p.HashOverflow = true
		}
	}
	for _, l := range labels {
		p.Labels[l]++
	}
}

// CaseEnum records n evaluated cases of an enumeration whose cases are pairwise
// distinct by construction; nt of them are non-trivial.
func CaseEnum(id string, n, nt int64, labels ...string) {
	mu.Lock()
	defer mu.Unlock()
	p := get(id)
	p.Evaluations += n
	p.Nontrivial += nt
	p.Enumerated += nt
	for _, l := range labels {
		p.Labels[l] += n
	}
}

// Label adds to a label counter without counting a case.
func Label(id string, label string, n int64) {
	mu.Lock()
	defer mu.Unlock()
	get(id).Labels[label] += n
}

// Sample offers a rendered case for the evidence samples (first 3, then sparse).
func Sample(id string, s any) {
	mu.Lock()
	defer mu.Unlock()
	p := get(id)
	p.sampleSeen++
	n := p.sampleSeen
	if len(p.Samples) < 3 {
		p.Samples = append(p.Samples, s)
		return
	}
	// keep power-of-four positions: a middle and late cases, at most 8
	if len(p.Samples) < 8 && n&(n-1) == 0 && n >= 64 && bitsEven(n) {
		p.Samples = append(p.Samples, s)
	}
}

func bitsEven(n int64) bool {
	c := 0
	for n > 1 {
		n >>= 1
		c++
	}
	return c%2 == 0
}

// WantSample reports whether the next Sample call would be retained, so that
// callers can avoid rendering.
func WantSample(id string) bool {
	mu.Lock()
	defer mu.Unlock()
	p := get(id)
	n := p.sampleSeen + 1
	if len(p.Samples) < 3 {
		return true
	}
	return len(p.Samples) < 8 && n&(n-1) == 0 && n >= 64 && bitsEven(n)
}

// Violation records an oracle failure and fails the test.
func Violation(t TB, id, key string, kase any, format string, args ...any) {
	t.Helper()
	msg := fmt.Sprintf(format, args...)
	record(t, id, key, kase, msg)
	t.Fatalf("VIOLATION-RECORD property=%s key=%s: %s", id, key, msg)
}

// ViolationNoFail records an oracle failure without failing (used from goroutines
// that are not the test goroutine); the caller must fail the test afterwards.
func ViolationNoFail(t TB, id, key string, kase any, format string, args ...any) {
	msg := fmt.Sprintf(format, args...)
	record(t, id, key, kase, msg)
}

// Bound scales a "must happen within d" liveness bound. Until the first violation
// of the process the full bound applies, so detection never depends on a short
// timeout; once a violation has been recorded rapid is shrinking, and its block
// minimiser does not look at the shrink deadline between attempts, so every
// further attempt that hangs would cost the full bound again. From then on a fifth
// of the bound (at least 2 s) is used; the first, full-bound record is kept beside
// the shrunk one in the evidence.
func Bound(d time.Duration) time.Duration {
	if !hadViolation.Load() {
		return d
	}
	if s := d / 5; s > 2*time.Second {
		return s
	}
	if d < 2*time.Second {
		return d
	}
	return 2 * time.Second
}

var hadViolation atomic.Bool

func record(t TB, id, key string, kase any, msg string) {
	hadViolation.Store(true)
	name := ""
	if n, ok := t.(interface{ Name() string }); ok {
		name = n.Name()
	}
	if len(msg) > 4000 {
		msg = msg[:4000] + "…"
	}
	mu.Lock()
	p := get(id)
	// keep the latest record per (test,key): while rapid shrinks, the last one is the minimal
	replaced := false
	for i := range p.Violations {
		if p.Violations[i].Test == name && p.Violations[i].Key == key {
			first, firstCase := p.Violations[i].FirstMessage, p.Violations[i].FirstCase
			if first == "" {
				first, firstCase = p.Violations[i].Message, p.Violations[i].Case
			}
			p.Violations[i] = violation{Test: name, Key: key, Message: msg, Case: kase, FirstMessage: first, FirstCase: firstCase}
			replaced = true
		}
	}
	if !replaced && len(p.Violations) < 50 {
		p.Violations = append(p.Violations, violation{Test: name, Key: key, Message: msg, Case: kase})
	}
	mu.Unlock()
	flush() // survive a later process crash
}

// Journal writes the case about to be executed to $VERIF_JOURNAL so that the driver
// can attribute a process crash to it.
func Journal(id string, kase any) {
	path := os.Getenv("VERIF_JOURNAL")
	if path == "" {
		return
	}
	b, _ := json.Marshal(map[string]any{"property": id, "case": kase})
	os.WriteFile(path, b, 0o644)
}

// Check wraps rapid.Check: it records planned and completed case counts so that a
// run cut short by a deadline is reported as inconclusive rather than as passed.
func Check(t *testing.T, id string, body func(*rapid.T)) {
	t.Helper()
	CheckScaled(t, id, 1, 1, body)
}

// CheckScaled is Check with the driver's base case count multiplied by num/den
// (cheap properties run more cases, expensive ones fewer, from one -rapid.checks value).
func CheckScaled(t *testing.T, id string, num, den int64, body func(*rapid.T)) {
	t.Helper()
	planned := int64(100)
	f := flag.Lookup("rapid.checks")
	if f != nil {
		if v, err := strconv.ParseInt(f.Value.String(), 10, 64); err == nil {
			planned = v
		}
	}
	if f != nil && (num != 1 || den != 1) {
		base := planned
		planned = base * num / den
		if planned < 1 {
			planned = 1
		}
		f.Value.Set(strconv.FormatInt(planned, 10))
		defer f.Value.Set(strconv.FormatInt(base, 10))
	}
	var done int64
	mu.Lock()
	skipsBefore := infraSkips[id]
	mu.Unlock()
	rapid.Check(t, func(rt *rapid.T) {
		body(rt)
		mu.Lock()
		done++
		mu.Unlock()
	})
	mu.Lock()
	p := get(id)
	p.Planned[t.Name()] = planned
	if !t.Failed() && done < planned {
		p.Short = append(p.Short, fmt.Sprintf("%s: %d of %d", t.Name(), done, planned))
	}
	if sk := infraSkips[id] - skipsBefore; sk > 3 && sk*50 > planned {
		p.Short = append(p.Short, fmt.Sprintf("%s: %d of %d planned cases abandoned for infrastructure reasons", t.Name(), sk, planned))
	}
	mu.Unlock()
}

// InfraSkip abandons the current generated case because the harness' own fixture could not be set
// up (no raw peer within the bound, a fixture dial failed, a scratch directory could not be made):
// the case is neither a pass nor a violation. rapid discards it and draws another one; the number of
// discarded cases is reported, and more than 2 % (and more than 3) of a test's planned cases make
// the run inconclusive.
func InfraSkip(rt *rapid.T, id string, format string, args ...any) {
	msg := fmt.Sprintf(format, args...)
	mu.Lock()
	p := get(id)
	p.Labels["infrastructure-skipped-cases"]++
	if len(p.Notes) < 40 {
		p.Notes = append(p.Notes, "infrastructure: "+msg)
	}
	infraSkips[id]++
	mu.Unlock()
	rt.Skip("infrastructure: " + msg)
}

var infraSkips = map[string]int64{}

// Hash returns a 64-bit fingerprint of its arguments.
func Hash(parts ...any) uint64 {
	h := fnv.New64a()
	var b [8]byte
	for _, p := range parts {
		switch v := p.(type) {
		case []byte:
			binary.LittleEndian.PutUint64(b[:], uint64(len(v)))
			h.Write(b[:])
			h.Write(v)
		case string:
			binary.LittleEndian.PutUint64(b[:], uint64(len(v)))
			h.Write(b[:])
			h.Write([]byte(v))
		case int:
			binary.LittleEndian.PutUint64(b[:], uint64(v))
			h.Write(b[:])
		case int64:
			binary.LittleEndian.PutUint64(b[:], uint64(v))
			h.Write(b[:])
		case uint64:
			binary.LittleEndian.PutUint64(b[:], v)
			h.Write(b[:])
		case uint32:
			binary.LittleEndian.PutUint64(b[:], uint64(v))
			h.Write(b[:])
		case uint16:
			binary.LittleEndian.PutUint64(b[:], uint64(v))
			h.Write(b[:])
		case byte:
			h.Write([]byte{v})
		case bool:
			if v {
				h.Write([]byte{1})
			} else {
				h.Write([]byte{0})
			}
		default:
			fmt.Fprintf(h, "%#v", v)
		}
	}
	return h.Sum64()
}

func flush() {
	out := os.Getenv("VERIF_EV_OUT")
	if out == "" {
		return
	}
	mu.Lock()
	defer mu.Unlock()
	type frag struct {
		Props map[string]*prop `json:"props"`
	}
	f := frag{Props: props}
	b, err := json.Marshal(f)
	if err != nil {
		fmt.Fprintf(os.Stderr, "ev: marshal: %v\n", err)
		return
	}
	tmp := out + ".tmp"
	if err := os.WriteFile(tmp, b, 0o644); err != nil {
		fmt.Fprintf(os.Stderr, "ev: write: %v\n", err)
		return
	}
	os.Rename(tmp, out)
	// hashes
	for id, p := range props {
		hs := make([]uint64, 0, len(p.hashes))
		for h := range p.hashes {
			hs = append(hs, h)
		}
		sort.Slice(hs, func(i, j int) bool { return hs[i] < hs[j] })
		buf := make([]byte, 8*len(hs))
		for i, h := range hs {
			binary.LittleEndian.PutUint64(buf[8*i:], h)
		}
		os.WriteFile(out+"."+id+".hashes", buf, 0o644)
	}
}

// Main is called from TestMain.
func Main(m *testing.M) {
	code := m.Run()
	flush()
	os.Exit(code)
}
