package net

// C06 — ending one channel never disturbs the connection or other channels.

import (
	"fmt"
	"sync"
	"sync/atomic"
	"testing"
	"time"
	"verifharness/gen"

	"github.com/basecomplextech/baselibrary/async"
	"github.com/basecomplextech/baselibrary/status"
	"github.com/basecomplextech/spec/mpx"
	"pgregory.net/rapid"

	"verifharness/ev"
	"verifharness/netfx"
)

const c06 = "C06"

type victim struct {
	ID     uint32 `json:"id"`
	Kind   int    `json:"kind"` // 0 client Free while server sends; 1 client SendAndClose while server sends; 2 handler returns OK while client sends; 3 handler returns error while client sends; 4 handler panics while client sends; 5 both end at once
	After  int    `json:"end_after_messages"`
	Size   int    `json:"message_size"`
	YieldN int    `json:"yield"`

	inflight atomic.Bool // the non-ending side saw a closed status while still sending
}

type c06case struct {
	Config    netConfig     `json:"config"`
	Witnesses []*chanScript `json:"witness_channels"`
	Victims   []*victim     `json:"victims"`
	Failure   string        `json:"failure,omitempty"`
}

var c06victims sync.Map

const roleVictim = 9

func c06Handler(er *errs) mpx.Handler {
	wit := c03Handler(er)
	return mpx.HandleFunc(func(ctx mpx.Context, ch mpx.Channel) status.Status {
		first, st := ch.Receive(ctx)
		if !st.OK() || len(first) < 16 {
			return status.OK
		}
		if netfx.HeaderConn(first) != roleVictim {
			// witness: re-dispatch into the C03 handler logic with the first message already read
			return c03HandleWithFirst(er, ctx, ch, first)
		}
		if netfx.HeaderChan(first) == 0xffffffff {
			// ping channel: echo
			return ch.SendAndClose(ctx, first)
		}
		v, ok := c06victims.Load(netfx.HeaderChan(first))
		if !ok {
			er.addf("server: unknown victim %d", netfx.HeaderChan(first))
			return status.OK
		}
		vc := v.(*victim)
		switch vc.Kind {
		case 0, 1: // server keeps sending until the channel ends
			for i, t0 := 0, time.Now(); ; i++ {
				yield(vc.YieldN, i)
				if st := ch.Send(ctx, netfx.Make(netfx.Header{Conn: roleVictim, Chan: vc.ID, Dir: 1, Seq: uint32(i)}, vc.Size)); !st.OK() {
					vc.inflight.Store(true)
					return status.OK
				}
				if i%1024 == 1023 && time.Since(t0) > boundArrive() {
					er.addf("server: victim %d never ended", vc.ID)
					return status.OK
				}
			}
		case 2, 3, 4, 5: // server ends after reading vc.After messages while the client keeps sending
			for i := 1; i < vc.After; i++ {
				if _, st := ch.Receive(ctx); !st.OK() {
					return status.OK
				}
			}
			switch vc.Kind {
			case 3:
				return status.Newf("app_victim", "victim %d handler error", vc.ID)
			case 4:
				panic(fmt.Sprintf("%s victim %d", netfx.InjectedPanicMarker, vc.ID))
			}
			return status.OK
		}
		_ = wit
		return status.OK
	})
}

func runVictimClient(conn mpx.Conn, vc *victim, er *errs) {
	ctx := ctxNone()
	ch, st := conn.Channel(ctx)
	if !st.OK() {
		er.addf("client: Channel() for victim %d: %v (connection closed=%v)", vc.ID, st, conn.Closed().IsSet())
		return
	}
	defer ch.Free()
	first := netfx.Make(netfx.Header{Conn: roleVictim, Chan: vc.ID, Dir: 0, Seq: 0}, max(16, vc.Size))
	if st := ch.Send(ctx, first); !st.OK() {
		er.addf("client: first Send of victim %d: %v", vc.ID, st)
		return
	}
	switch vc.Kind {
	case 0, 1:
		for i := 0; i < vc.After; i++ {
			if _, st := ch.Receive(ctx); !st.OK() {
				return
			}
		}
		if vc.Kind == 1 {
			ch.SendAndClose(ctx, netfx.Make(netfx.Header{Conn: roleVictim, Chan: vc.ID, Dir: 0, Seq: 1}, vc.Size))
		}
		return // Free by defer while the server is still sending
	default:
		for i, t0 := 1, time.Now(); ; i++ {
			yield(vc.YieldN, i)
			if vc.Kind == 5 && i >= vc.After {
				return // both sides end at about the same message count
			}
			if st := ch.Send(ctx, netfx.Make(netfx.Header{Conn: roleVictim, Chan: vc.ID, Dir: 0, Seq: uint32(i)}, vc.Size)); !st.OK() {
				vc.inflight.Store(true)
				return
			}
			if i%1024 == 1023 && time.Since(t0) > boundArrive() {
				er.addf("client: victim %d never ended", vc.ID)
				return
			}
		}
	}
}

func TestC06_Isolation(t *testing.T) {
	ev.Rule(c06, "rapid: one connection with 2..4 witness channels running complete C03 integrity scripts for the whole case and 8..120 victim channels, each ended by a drawn mode {client Free while server sends, client SendAndClose while server sends, handler returns OK / error status / panics while client sends, both end at once} at a drawn point with traffic in flight; oracle: connection stays open and keeps opening channels (ping echo at the end), witnesses complete in order and uncorrupted, no library panic and no connection-level error in the log; non-trivial = >=1 victim ended while its peer was still sending (peer observed the closed status); distinct by script hash")
	ev.Check(t, c06, func(rt *rapid.T) {
		cfg := drawConfig(rt)
		cfg.Sched = drawSched(rt)
		// small windows: many victims share the connection (the stream-density variant below covers large windows)
		if cfg.Window == 0 || cfg.Window > 1000 {
			cfg.Window = []int{64, 1000, 4096}[rapid.IntRange(0, 2).Draw(rt, "victimwindow")]
		}
		nw := rapid.IntRange(2, 4).Draw(rt, "witnesses")
		var wits []*chanScript
		for i := 0; i < nw; i++ {
			sc := &chanScript{ID: chanSeq.Add(1), Variant: rapid.IntRange(0, 1).Draw(rt, "wvariant")}
			n := rapid.IntRange(10, 60).Draw(rt, "wn")
			for k := 0; k < n; k++ {
				s := rapid.IntRange(1, 300).Draw(rt, "wsize")
				if k == 0 && s < 16 {
					s = 16
				}
				sc.C2S = append(sc.C2S, s)
				sc.S2C = append(sc.S2C, rapid.IntRange(1, 300).Draw(rt, "wsize2"))
			}
			sc.YieldC, sc.YieldS = rapid.IntRange(0, 3).Draw(rt, "wy1"), rapid.IntRange(0, 3).Draw(rt, "wy2")
			wits = append(wits, sc)
		}
		nv := rapid.IntRange(8, 120).Draw(rt, "victims")
		var vics []*victim
		for i := 0; i < nv; i++ {
			vics = append(vics, &victim{ID: chanSeq.Add(1), Kind: rapid.IntRange(0, 5).Draw(rt, "kind"), After: rapid.IntRange(1, 12).Draw(rt, "after"),
				Size: []int{1, 16, 17, 100, 500}[rapid.IntRange(0, 4).Draw(rt, "vsize")], YieldN: rapid.IntRange(0, 3).Draw(rt, "vyield")})
		}
		kase := &c06case{Config: cfg, Witnesses: wits, Victims: vics}
		f := runC06(cfg, wits, vics)
		if f.key == "infra" {
			ev.InfraSkip(rt, c06, "%s", f.msg)
		}
		if f.key != "" {
			kase.Failure = f.msg
			ev.Violation(rt, c06, f.key, kase, "%s", f.msg)
		}
		inflight := 0
		var hp []any
		for _, v := range vics {
			if v.inflight.Load() {
				inflight++
			}
			hp = append(hp, v.Kind, v.After, v.Size)
		}
		ev.Case(c06, ev.Hash(hp...), inflight > 0, fmt.Sprintf("inflight-ends>0=%v", inflight > 0))
		ev.Label(c06, "victims", int64(len(vics)))
		ev.Label(c06, "victims-ended-with-traffic-in-flight", int64(inflight))
		if ev.WantSample(c06) {
			ev.Sample(c06, map[string]any{"config": cfg, "witnesses": len(wits), "victims": len(vics), "ended_with_traffic_in_flight": inflight, "first_victims": vics[:min(4, len(vics))]})
		}
	})
}

func runC06(cfg netConfig, wits []*chanScript, vics []*victim) (f failure) {
	defer cfg.Sched.install()()
	withProcs(cfg.Procs, func() {
		log := netfx.NewLogger()
		er := &errs{}
		srv, err := netfx.StartServer(c06Handler(er), log, cfg.options())
		if err != nil {
			panic(fmt.Sprintf("infrastructure: %v", err))
		}
		defer srv.Stop()
		for _, sc := range wits {
			c03registry.Store(sc.ID, sc)
			defer c03registry.Delete(sc.ID)
		}
		for _, v := range vics {
			c06victims.Store(v.ID, v)
			defer c06victims.Delete(v.ID)
		}
		conn, st := mpx.Connect(ctxNone(), srv.Addr, log, cfg.options())
		if !st.OK() {
			f = failure{"infra", fmt.Sprintf("Connect: %v", st)}
			return
		}
		defer conn.Close()
		var wg sync.WaitGroup
		for _, sc := range wits {
			wg.Add(1)
			go func(sc *chanScript) { defer wg.Done(); runC03Client(conn, sc, er) }(sc)
		}
		for _, v := range vics {
			wg.Add(1)
			go func(v *victim) { defer wg.Done(); runVictimClient(conn, v, er) }(v)
		}
		if !waitGroupTimeout(&wg, hangTimeout()) {
			f = failure{"hang", "case did not finish within " + hangTimeout().String() + ":\n" + goroutineDump()}
			return
		}
		// server side of witnesses finishes when their channel ends
		for _, sc := range wits {
			if sc.Variant == 1 {
				for i := 0; i < 20000; i++ {
					sc.mu.Lock()
					done := sc.srvEnd != ""
					sc.mu.Unlock()
					if done {
						break
					}
					time.Sleep(time.Millisecond)
				}
			}
		}
		if conn.Closed().IsSet() {
			f = failure{"connection-closed", fmt.Sprintf("the connection closed while channels were being ended: %v", log.ConnErrors())}
			return
		}
		if p := libraryPanicText(log); p != "" {
			f = failure{"library-panic", p}
			return
		}
		if ce := log.ConnErrors(); len(ce) > 0 {
			f = failure{"connection-error", fmt.Sprintf("connection-level error logged: %v", ce[0])}
			return
		}
		if e := er.first(); e != "" {
			f = failure{"witness-or-victim-error", e}
			return
		}
		for _, sc := range wits {
			if err := sc.verify(); err != nil {
				f = failure{"witness-disturbed", err.Error()}
				return
			}
		}
		// the same connection still opens channels
		ch, st := conn.Channel(ctxNone())
		if !st.OK() {
			f = failure{"connection-unusable", fmt.Sprintf("Channel() after the case: %v", st)}
			return
		}
		ping := netfx.Make(netfx.Header{Conn: roleVictim, Chan: 0xffffffff}, 32)
		if st := ch.Send(ctxNone(), ping); !st.OK() {
			f = failure{"connection-unusable", fmt.Sprintf("ping send: %v", st)}
		} else if m, st := ch.Receive(async30()); !st.OK() || string(m) != string(ping) {
			f = failure{"connection-unusable", fmt.Sprintf("ping echo: %v (%d bytes)", st, len(m))}
		}
		ch.Free()
	})
	return
}

// TestC06_StaleFrames: frames that arrive for a channel that has already ended (or never
// existed) are dropped silently, on the server side and on the client side.
func TestC06_StaleFrames(t *testing.T) {
	ev.Rule(c06, "raw-peer variant: a scripted wire-level peer opens a channel, lets it end (handler SendAndClose / peer close / client Free), then sends data, window and close frames for that id and for ids that never existed, single and batched, and finally uses a fresh ping channel on the same connection, which must still work; run against a real server and (mirrored) against a real client; non-trivial = all; distinct by frame script hash")
	ev.Check(t, c06, func(rt *rapid.T) {
		n := rapid.IntRange(1, 12).Draw(rt, "nframes")
		type fr struct {
			Kind  int
			Known bool
			Size  int
			Delta int32
		}
		var script []fr
		for i := 0; i < n; i++ {
			script = append(script, fr{Kind: rapid.IntRange(0, 2).Draw(rt, "kind"), Known: rapid.Bool().Draw(rt, "known"), Size: rapid.IntRange(0, 40).Draw(rt, "size"),
				Delta: []int32{0, 1, -1, 1000, 2147483647, -2147483648}[rapid.IntRange(0, 5).Draw(rt, "delta")]})
		}
		batch := rapid.Bool().Draw(rt, "batch")
		serverSide := rapid.Bool().Draw(rt, "serverside")
		kase := map[string]any{"frames": script, "batched": batch, "target": map[bool]string{true: "real server", false: "real client"}[serverSide]}
		log := netfx.NewLogger()
		opts := mpx.Default()
		opts.Compression = false
		build := func(idKnown, idUnknown netfx.ID) [][]byte {
			var msgs []*gen.Node
			for _, f := range script {
				id := idUnknown
				if f.Known {
					id = idKnown
				}
				switch f.Kind {
				case 0:
					msgs = append(msgs, netfx.DataMsg(id, make([]byte, f.Size)))
				case 1:
					msgs = append(msgs, netfx.WindowMsg(id, f.Delta))
				default:
					msgs = append(msgs, netfx.CloseMsg(id, make([]byte, f.Size)))
				}
			}
			if batch {
				return [][]byte{netfx.Encode(netfx.BatchMsg(msgs...))}
			}
			var out [][]byte
			for _, m := range msgs {
				out = append(out, netfx.Encode(m))
			}
			return out
		}
		if serverSide {
			handler := mpx.HandleFunc(func(ctx mpx.Context, ch mpx.Channel) status.Status {
				m, st := ch.Receive(ctx)
				if !st.OK() {
					return st
				}
				return ch.SendAndClose(ctx, m)
			})
			srv, err := netfx.StartServer(handler, log, opts)
			if err != nil {
				ev.InfraSkip(rt, c06, "%v", err)
			}
			defer srv.Stop()
			peer, err := netfx.DialRaw(srv.Addr)
			if err != nil {
				ev.InfraSkip(rt, c06, "%v", err)
			}
			defer peer.Close()
			if _, err := peer.ClientHandshake(false); err != nil {
				ev.InfraSkip(rt, c06, "%v", err)
			}
			echo := func(id netfx.ID, what string) bool {
				peer.WriteMsg(netfx.OpenMsg(id, 1<<20, []byte("hello-"+what)))
				for {
					f, err := peer.ReadFrame(boundArrive())
					if err != nil {
						ev.Violation(rt, c06, "stale:connection-lost", kase, "%s: connection lost or no reply: %v; log: %v", what, err, log.Records())
						return false
					}
					for _, x := range f.Flat() {
						if x.Code == netfx.CodeClose && x.ID == id {
							if string(x.Data) != "hello-"+what {
								ev.Violation(rt, c06, "stale:wrong-echo", kase, "%s: echo %q", what, x.Data)
								return false
							}
							return true
						}
					}
				}
			}
			idX := netfx.MakeID(100)
			if !echo(idX, "first") {
				return
			}
			peer.WriteFrames(build(idX, netfx.MakeID(999))...)
			if !echo(netfx.MakeID(101), "ping-after-stale-frames") {
				return
			}
		} else {
			rs, err := newRawServer()
			if err != nil {
				ev.InfraSkip(rt, c06, "%v", err)
			}
			defer rs.close()
			conn, st := mpx.Connect(ctxNone(), rs.ln.Addr().String(), log, opts)
			if !st.OK() {
				ev.InfraSkip(rt, c06, "%v", st)
			}
			defer conn.Close()
			var peer *netfx.RawPeer
			select {
			case peer = <-rs.peers:
			case <-time.After(boundArrive()):
				ev.InfraSkip(rt, c06, "no raw peer")
			}
			defer peer.Close()
			ch, st := conn.Channel(ctxNone())
			if !st.OK() {
				ev.InfraSkip(rt, c06, "%v", st)
			}
			ch.Send(ctxNone(), []byte("x"))
			f, ok := rs.next(boundArrive())
			if !ok || f.Code != netfx.CodeOpen {
				ev.Violation(rt, c06, "stale:no-open", kase, "client did not send an open frame")
				return
			}
			ch.Free()
			// wait for the close frame so that the channel has really ended
			for {
				g, ok := rs.next(boundArrive())
				if !ok {
					ev.Violation(rt, c06, "stale:no-close", kase, "client did not send a close frame after Free")
					return
				}
				if g.Code == netfx.CodeClose {
					break
				}
			}
			peer.WriteFrames(build(f.ID, netfx.MakeID(999))...)
			// the connection must still be usable: a new channel round-trips through the raw server
			ch2, st := conn.Channel(ctxNone())
			if !st.OK() {
				ev.Violation(rt, c06, "stale:connection-lost", kase, "Channel() after stale frames: %v; log: %v", st, log.Records())
				return
			}
			defer ch2.Free()
			if st := ch2.Send(ctxNone(), []byte("ping")); !st.OK() {
				ev.Violation(rt, c06, "stale:connection-lost", kase, "Send after stale frames: %v", st)
				return
			}
			g, ok := rs.next(boundArrive())
			if !ok || g.Code != netfx.CodeOpen || string(g.Data) != "ping" {
				ev.Violation(rt, c06, "stale:connection-lost", kase, "ping open frame did not arrive after stale frames (ok=%v code=%d); log: %v", ok, g.Code, log.Records())
				return
			}
			peer.WriteMsg(netfx.CloseMsg(g.ID, []byte("pong")))
			m, st := ch2.Receive(async30())
			if !st.OK() || string(m) != "pong" {
				ev.Violation(rt, c06, "stale:connection-lost", kase, "pong not received: %v %q", st, m)
				return
			}
			if conn.Closed().IsSet() {
				ev.Violation(rt, c06, "stale:connection-lost", kase, "connection closed: %v", log.Records())
			}
		}
		if p := libraryPanicText(log); p != "" {
			ev.Violation(rt, c06, "stale:library-panic", kase, "%s", p)
		}
		if ce := log.ConnErrors(); len(ce) > 0 {
			ev.Violation(rt, c06, "stale:connection-error", kase, "connection-level error after stale frames: %v", ce[0])
		}
		ev.Case(c06, ev.Hash("stale", fmt.Sprint(script), batch, serverSide), true, fmt.Sprintf("stale:serverside=%v", serverSide))
	})
}

// TestC06_EndUnderStream concentrates the schedule on the narrow end-of-channel windows: few
// channels per connection, so that nearly every frame the receive loop handles belongs to the
// channel that is being ended, with the other side streaming small frames through a large
// window for the whole end sequence (user Free -> close frame queued -> send loop frees).
func TestC06_EndUnderStream(t *testing.T) {
	ev.Rule(c06, "rapid, stream-density variant: 1..4 connections in parallel, each running 20..80 victim channels one after another (end modes as in Isolation, ending side stops after 0..3 messages, streaming side sends 1..17-byte frames through a 1 MiB/default window), and a ping echo on the same connection after every few victims; oracle: every ping echoes, the connection stays open, no library panic, no connection-level error; non-trivial = >=1 victim ended while its peer was still sending")
	ev.CheckScaled(t, c06, 1, 3, func(rt *rapid.T) {
		cfg := drawConfig(rt)
		cfg.Sched = drawSched(rt)
		cfg.Window = []int{1 << 20, 0}[rapid.IntRange(0, 1).Draw(rt, "streamwindow")]
		cfg.Procs = []int{2, 4, 16}[rapid.IntRange(0, 2).Draw(rt, "procs2")]
		// tiny socket buffers (one syscall per 16 bytes) behind a megabyte of queued frames only make the
		// end sequence slow; they are exercised by Isolation
		if cfg.ReadBuf != 0 && cfg.ReadBuf < 4096 {
			cfg.ReadBuf = 4096
		}
		if cfg.WriteBuf != 0 && cfg.WriteBuf < 4096 {
			cfg.WriteBuf = 4096
		}
		nconn := rapid.IntRange(1, 4).Draw(rt, "conns")
		plans := make([][]*victim, nconn)
		var hp []any
		for c := range plans {
			n := rapid.IntRange(20, 80).Draw(rt, "cycles")
			for i := 0; i < n; i++ {
				v := &victim{ID: chanSeq.Add(1), Kind: rapid.IntRange(0, 5).Draw(rt, "kind"), After: rapid.IntRange(1, 4).Draw(rt, "after"),
					Size: []int{1, 16, 17}[rapid.IntRange(0, 2).Draw(rt, "vsize")], YieldN: rapid.IntRange(0, 2).Draw(rt, "vyield")}
				plans[c] = append(plans[c], v)
				hp = append(hp, v.Kind, v.After, v.Size)
			}
		}
		kase := map[string]any{"config": cfg, "connections": nconn, "victims_per_connection": len(plans[0]), "first_victims": plans[0][:min(6, len(plans[0]))]}
		var f failure
		inflight := 0
		t0 := time.Now()
		defer cfg.Sched.install()()
		defer func() {
			if d := time.Since(t0); d > 2*time.Second {
				ev.Label(c06, "stream:case-took>2s", 1)
			}
		}()
		withProcs(cfg.Procs, func() {
			log := netfx.NewLogger()
			er := &errs{}
			srv, err := netfx.StartServer(c06Handler(er), log, cfg.options())
			if err != nil {
				panic(fmt.Sprintf("infrastructure: %v", err))
			}
			defer srv.Stop()
			var wg sync.WaitGroup
			var fmu sync.Mutex
			setf := func(k, m string) {
				fmu.Lock()
				if f.key == "" {
					f = failure{k, m}
				}
				fmu.Unlock()
			}
			for c := range plans {
				for _, v := range plans[c] {
					c06victims.Store(v.ID, v)
					defer c06victims.Delete(v.ID)
				}
				conn, st := mpx.Connect(ctxNone(), srv.Addr, log, cfg.options())
				if !st.OK() {
					setf("infra", fmt.Sprintf("Connect: %v", st))
					return
				}
				defer conn.Close()
				wg.Add(1)
				go func(c int, conn mpx.Conn) {
					defer wg.Done()
					for i, v := range plans[c] {
						runVictimClient(conn, v, er)
						if i%4 == 3 || i == len(plans[c])-1 {
							ch, st := conn.Channel(ctxNone())
							if !st.OK() {
								setf("stream:connection-unusable", fmt.Sprintf("connection %d: Channel() after victim %d (kind %d): %v; connection errors: %v", c, i, v.Kind, st, log.ConnErrors()))
								return
							}
							ping := netfx.Make(netfx.Header{Conn: roleVictim, Chan: 0xffffffff, Seq: uint32(i)}, 32)
							if st := ch.Send(ctxNone(), ping); !st.OK() {
								setf("stream:connection-unusable", fmt.Sprintf("connection %d: ping send after victim %d (kind %d): %v; connection errors: %v", c, i, v.Kind, st, log.ConnErrors()))
								ch.Free()
								return
							}
							m, st := ch.Receive(async.TimeoutContext(boundArrive()))
							if !st.OK() || string(m) != string(ping) {
								setf("stream:connection-unusable", fmt.Sprintf("connection %d: ping echo after victim %d (kind %d): %v (%d bytes); connection errors: %v", c, i, v.Kind, st, len(m), log.ConnErrors()))
								ch.Free()
								return
							}
							ch.Free()
						}
						if conn.Closed().IsSet() {
							setf("stream:connection-closed", fmt.Sprintf("connection %d closed after victim %d (kind %d): %v", c, i, v.Kind, log.ConnErrors()))
							return
						}
					}
				}(c, conn)
			}
			if !waitGroupTimeout(&wg, hangTimeout()) {
				setf("stream:hang", "case did not finish within "+hangTimeout().String()+":\n"+goroutineDump())
				return
			}
			if f.key != "" {
				return
			}
			if p := libraryPanicText(log); p != "" {
				setf("library-panic", p)
			} else if ce := log.ConnErrors(); len(ce) > 0 {
				setf("connection-error", fmt.Sprintf("connection-level error logged: %v", ce[0]))
			} else if e := er.first(); e != "" {
				setf("witness-or-victim-error", e)
			}
		})
		if f.key == "infra" {
			ev.InfraSkip(rt, c06, "%s", f.msg)
		}
		if f.key != "" {
			kase["failure"] = f.msg
			ev.Violation(rt, c06, f.key, kase, "%s", f.msg)
		}
		total := 0
		for c := range plans {
			for _, v := range plans[c] {
				total++
				if v.inflight.Load() {
					inflight++
				}
			}
		}
		ev.Case(c06, ev.Hash(append(hp, "stream", fmt.Sprint(cfg))...), inflight > 0, fmt.Sprintf("stream:inflight-ends>0=%v", inflight > 0))
		ev.Label(c06, "victims", int64(total))
		ev.Label(c06, "victims-ended-with-traffic-in-flight", int64(inflight))
	})
}
