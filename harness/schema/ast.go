// Package schema is the harness' own model of the schema language: AST, renderer,
// generators, JSON mirror of the parser's syntax tree and token utilities.
package schema

import (
	"fmt"
	"strings"

	"verifharness/gen"
)

type DefKind int

const (
	DefEnum DefKind = 1 + iota
	DefMessage
	DefStruct
	DefService
	DefSubservice
)

type File struct {
	Name    string // file name within the package directory (without directory)
	Imports []Import
	Options []Option
	Defs    []*Def
	// HasImports / HasOptions force rendering of an empty section.
	HasImports, HasOptions bool
}

type Import struct{ Alias, ID string }
type Option struct{ Name, Value string }

type Def struct {
	Kind    DefKind
	Name    string
	Values  []EnumValue
	Fields  []Field // message fields (with tags) or struct fields (Tag ignored)
	Methods []Method
}

type EnumValue struct {
	Name  string
	Value string // decimal literal as written
}

// Type is a field/element/argument type.
type Type struct {
	List bool
	Pkg  string // import alias for qualified references
	Name string // builtin name, "any", "message", or a definition name
}

func (t Type) String() string {
	s := t.Name
	if t.Pkg != "" {
		s = t.Pkg + "." + t.Name
	}
	if t.List {
		return "[]" + s
	}
	return s
}

type Field struct {
	Name string
	Type Type
	Tag  string // decimal literal as written
}

type Method struct {
	Name string
	// Input: either a single base type or a field list
	InputType   *Type
	InputFields []Field
	Oneway      bool
	// Output
	HasOutput    bool
	OutputType   *Type
	OutputFields []Field
	// Channel
	ChanIn, ChanOut *Type
}

var Builtins = []string{"bool", "byte", "int16", "int32", "int64", "uint16", "uint32", "uint64", "float32", "float64", "bin64", "bin128", "bin256", "bytes", "string"}

var builtinKind = map[string]int{"any": 1, "bool": 2, "byte": 3, "int16": 4, "int32": 5, "int64": 6, "uint16": 7, "uint32": 8, "uint64": 9,
	"float32": 10, "float64": 11, "bin64": 12, "bin128": 13, "bin256": 14, "bytes": 15, "string": 16, "message": 17}

// ContextualKeywords can be used as field, method and enum value names.
var ContextualKeywords = []string{"any", "import", "message", "options", "struct", "service", "subservice"}

// ReservedKeywords can never be names.
var ReservedKeywords = []string{"enum", "oneway"}

// Style drives cosmetic choices of the renderer.
type Style struct {
	S gen.Src // nil = canonical
}

func (st Style) n(k int, label string) int {
	if st.S == nil {
		return 0
	}
	return st.S.Intn(k, label)
}

// ws returns a separator: canonical single space / newline, or random whitespace and comments.
func (st Style) ws(must bool) string {
	if st.S == nil {
		if must {
			return " "
		}
		return ""
	}
	var sb strings.Builder
	k := st.n(4, "wsn")
	for i := 0; i < k; i++ {
		switch st.n(7, "wskind") {
		case 0:
			sb.WriteString(" ")
		case 1:
			sb.WriteString("\t")
		case 2:
			sb.WriteString("\n")
		case 3:
			sb.WriteString("\r\n")
		case 4:
			sb.WriteString("// line comment " + []string{"", "message X {", "\"", "0x1f 1.5 'c'"}[st.n(4, "cmt")] + "\n")
		case 5:
			sb.WriteString("/* block " + []string{"", "enum E { A = 0; }", "\n\n", "*"}[st.n(4, "cmt")] + " */")
		default:
			sb.WriteString("  ")
		}
	}
	if must && sb.Len() == 0 {
		return " "
	}
	return sb.String()
}

// Render prints a file. With a nil style source the output is canonical.
func Render(f *File, st Style) string {
	var sb strings.Builder
	w := func(tok string, must bool) {
		sb.WriteString(tok)
		sb.WriteString(st.ws(must))
	}
	sb.WriteString(st.ws(false))
	if len(f.Imports) > 0 || f.HasImports {
		w("import", false)
		w("(", false)
		for _, im := range f.Imports {
			if im.Alias != "" {
				w(im.Alias, true)
			}
			w(`"`+im.ID+`"`, true)
		}
		w(")", false)
	}
	if len(f.Options) > 0 || f.HasOptions {
		w("options", false)
		w("(", false)
		for _, o := range f.Options {
			w(o.Name, false)
			w("=", false)
			w(`"`+o.Value+`"`, true)
		}
		w(")", false)
	}
	renderType := func(t Type) {
		if t.List {
			w("[", false)
			w("]", false)
		}
		if t.Pkg != "" {
			w(t.Pkg, false)
			w(".", false)
		}
		w(t.Name, true)
	}
	fieldList := func(fs []Field) {
		w("(", false)
		for i, fl := range fs {
			if i > 0 {
				w(",", false)
			}
			w(fl.Name, true)
			renderType(fl.Type)
			w(fl.Tag, true)
		}
		if len(fs) > 0 && st.n(3, "trailingcomma") == 1 {
			w(",", false)
		}
		w(")", false)
	}
	for _, d := range f.Defs {
		switch d.Kind {
		case DefEnum:
			w("enum", true)
			w(d.Name, false)
			w("{", false)
			for _, v := range d.Values {
				w(v.Name, false)
				w("=", false)
				w(v.Value, false)
				w(";", false)
			}
			w("}", false)
		case DefMessage:
			if strings.HasPrefix(d.Name, "\x00RAW:") {
				// raw tail injected by a lexical-error mutation
				sb.WriteString("message " + d.Name[5:])
				continue
			}
			w("message", true)
			w(d.Name, false)
			w("{", false)
			for i, fl := range d.Fields {
				if i > 0 {
					w(";", false)
				}
				w(fl.Name, true)
				renderType(fl.Type)
				w(fl.Tag, true)
			}
			if len(d.Fields) > 0 && (st.S == nil || st.n(3, "trailingsemi") != 0) {
				w(";", false)
			}
			w("}", false)
		case DefStruct:
			w("struct", true)
			w(d.Name, false)
			w("{", false)
			for _, fl := range d.Fields {
				w(fl.Name, true)
				renderType(fl.Type)
				w(";", false)
			}
			w("}", false)
		case DefService, DefSubservice:
			if d.Kind == DefService {
				w("service", true)
			} else {
				w("subservice", true)
			}
			w(d.Name, false)
			w("{", false)
			for _, m := range d.Methods {
				w(m.Name, false)
				if m.InputType != nil {
					w("(", false)
					renderType(*m.InputType)
					w(")", false)
				} else {
					fieldList(m.InputFields)
				}
				if m.Oneway {
					w("oneway", true)
				}
				if m.ChanIn != nil || m.ChanOut != nil {
					w("(", false)
					if m.ChanIn != nil {
						w("<", false)
						w("-", false)
						renderType(*m.ChanIn)
					}
					if m.ChanIn != nil && m.ChanOut != nil {
						w(",", false)
					}
					if m.ChanOut != nil {
						renderType(*m.ChanOut)
						w("-", false)
						w(">", false)
					}
					w(")", false)
				}
				if m.HasOutput {
					if m.OutputType != nil {
						renderType(*m.OutputType)
					} else {
						fieldList(m.OutputFields)
					}
				}
				w(";", false)
			}
			w("}", false)
		}
		sb.WriteString(st.ws(false))
		if st.S == nil {
			sb.WriteString("\n")
		}
	}
	return sb.String()
}

func (d *Def) String() string { return fmt.Sprintf("%d %s", d.Kind, d.Name) }
