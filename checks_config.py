"""Per-property configuration of the driver (./check)."""

PROP_ORDER = ["C%02d" % i for i in range(1, 21)]

CHECKS = {}

CHECKS["C10"] = dict(
    pkg="codec", run="^TestC10_", level="exploration",
    quick=dict(shards=1, checks=5000, timeout=300),
    thorough=dict(shards=16, checks=40000, timeout=1500),
    assumptions=[
        "float64->float32 narrowing: in-range inexact values may round (correctly) or error; a finite magnitude beyond MaxFloat32 must be an overflow error, also inside the window that a plain conversion would round down to MaxFloat32 (reading fixed in DESIGN 3/C10; the unchanged tree satisfies it)",
        "signalling float32 NaNs may be quieted by the float32->float64->float32 path of the decoder; NaN-ness is required, payload only for quiet NaNs",
    ],
)

CHECKS["C01"] = dict(
    pkg="codec", run="^TestC01_", level="exploration",
    quick=dict(shards=4, checks=3000, timeout=600),
    thorough=dict(shards=16, checks=25000, timeout=2400),
    assumptions=[
        "struct bodies are opaque sequences of scalar members (generated struct code is C05)",
        "duplicate tags and empty raw values passed to Any are outside the domain (statement: distinct tags, valid values)",
    ],
)

CHECKS["C08"] = dict(
    pkg="codec", run="^TestC08_", level="exploration",
    quick=dict(shards=4, checks=2500, timeout=600),
    thorough=dict(shards=16, checks=40000, timeout=2400),
    assumptions=[
        "the reference encoder/decoder (harness/refcodec, written from format.md and the pinned type codes) is the statement of the wire layout; it is itself pinned by hand-written literals and by the golden corpus",
        "golden corpus golden/c08.jsonl was captured with the encoder sources of the pinned commit (fix commits do not touch the layout)",
    ],
)

CHECKS["C02"] = dict(
    parts=[dict(pkg="codec", run="^TestC02_"), dict(pkg="lang", run="^TestC02_")], level="exploration", crash_is_violation=True,
    quick=dict(shards=8, checks=60, timeout=900),
    thorough=dict(shards=16, checks=600, timeout=3000, fuzz=[dict(pkg="codec", target="FuzzRead", seconds=90)]),
    assumptions=[
        "size bound asserted only when no error is returned (DecodeFloat64 returns n=-1 with an error)",
        "List.Get(i)/GetBytes(i) with i outside [0,Len) panic by documentation and are not called",
        "struct decoders and message readers emitted by the generator are exercised by the lang part (emitted hostile-input driver inside each generated package)",
    ],
)

CHECKS["C13"] = dict(
    pkg="codec", run="^TestC13_", level="exploration",
    quick=dict(shards=8, checks=60, timeout=900),
    thorough=dict(shards=16, checks=800, timeout=3000, fuzz=[dict(pkg="codec", target="FuzzAgree", seconds=90)]),
    assumptions=[
        "the domain is inputs accepted by ParseValue; inputs that crash a decoder are C02's subject and are skipped here",
        "struct bodies are not parsed by ParseValue, so nothing is asserted about struct members",
    ],
)

CHECKS["C12"] = dict(
    pkg="codec", run="^TestC12_", level="exploration",
    quick=dict(shards=8, checks=4000, timeout=900),
    thorough=dict(shards=16, checks=60000, timeout=3000),
    assumptions=[
        "only explicitly owned writers (NewWriter/NewWriterBuffer); auto-released writers are C18's subject",
        "a handle variable detached by End/Build (and handles derived from it afterwards) may report its own 'closed' error instead of the sticky error E; value copies taken before the detach must report E",
        "Any/Copy/Merge receive valid encodings only (Any copies raw bytes without validation by design)",
    ],
)

CHECKS["C16"] = dict(
    parts=[dict(pkg="codec", run="^TestC16_"), dict(pkg="lang", run="^TestC16_")], level="exploration",
    quick=dict(shards=4, checks=5000, timeout=900),
    thorough=dict(shards=16, checks=60000, timeout=4000),
    assumptions=[
        "kind changes of a surviving tag and reuse of a removed tag with another meaning are outside the property",
    ],
)

CHECKS["C17"] = dict(
    parts=[dict(pkg="codec", run="^TestC17_")], level="exploration",
    quick=dict(shards=4, checks=1500, timeout=600, gomaxprocs=2),
    thorough=dict(shards=16, checks=20000, timeout=2400, gomaxprocs=1),
    assumptions=[
        "measured with the repository's own toolchain (go1.24.0) and default flags; escape analysis of other toolchains is not covered",
        "accessors documented to allocate (Clone*, Values(), table Fields()/Elements(), StringClone) and error paths are excluded",
        "steady state = after 3 warm-up runs with the garbage collector disabled during measurement (sync.Pool contents are dropped by GC by design)",
    ],
)

CHECKS["C18"] = dict(
    parts=[dict(pkg="codec", run="^TestC18_"), dict(pkg="net", run="^TestC18_|^TestC03_Delivery$")], level="exploration",
    quick=dict(shards=4, checks=400, timeout=600, env=dict(VERIF_C18="1")),
    thorough=dict(shards=6, checks=160, timeout=3000, race=True, env=dict(VERIF_C18="1")),
    assumptions=[
        "a data race is only observed if it occurs in an execution (thorough tier, -race build)",
    ],
)

CHECKS["C03"] = dict(
    parts=[dict(pkg="net", run="^TestC03_")], level="exploration",
    quick=dict(shards=8, checks=400, timeout=900),
    thorough=dict(shards=16, checks=6000, timeout=3000),
    assumptions=[
        "one receiver goroutine per channel end (documented single-reader discipline); one sender per end in the Delivery layer, 2..4 concurrent senders per channel in the SharedChannelSenders layer",
        "with concurrent senders a Send that did not return OK (it lost against SendAndClose) may or may not have been delivered; every Send that returned OK must be",
        "schedule perturbation (seeded yields/sleeps of <= 0.5 ms at the library's verif-tagged schedule points) only delays goroutines; it cannot create an interleaving the Go scheduler could not produce",
        "empty messages are filtered from both sides (open/close frames drop empty payloads, data frames deliver them)",
        "the harness waits with wait-then-poll order; the public ReceiveAsync/ReceiveWait pair used poll-then-wait can miss a wakeup because of the dependency's byte queue (see DESIGN.md)",
        "a case that does not finish within 60 s is reported as a violation (both ends run independent sender/receiver goroutines, so no user-level wait cycle exists)",
    ],
)

CHECKS["C07"] = dict(
    parts=[dict(pkg="net", run="^TestC07_")], level="exploration",
    quick=dict(shards=8, checks=120, timeout=900),
    thorough=dict(shards=16, checks=1500, timeout=3000),
    assumptions=[
        "'must block' is observed for 60 ms (a late frame can only make the check miss a bug, never invent one); 'must be admitted / delivered' uses a 20 s bound",
        "W is the opener's window carried by the open frame; the opening payload and the closing SendAndClose payload debit without waiting",
    ],
)

CHECKS["C06"] = dict(
    parts=[dict(pkg="net", run="^TestC06_")], level="exploration",
    quick=dict(shards=8, checks=60, timeout=900),
    thorough=dict(shards=16, checks=1200, timeout=3000),
    assumptions=[
        "handler panics injected by the harness carry a marker and are not counted as library panics",
        "schedule coverage is statistical (many short-lived victims with traffic in flight, GOMAXPROCS 1/2/16, generated yields)",
    ],
)

CHECKS["C11"] = dict(
    parts=[dict(pkg="net", run="^TestC11_")], level="exploration", crash_is_violation=True,
    quick=dict(shards=8, checks=200, timeout=900),
    thorough=dict(shards=16, checks=4000, timeout=3000),
    assumptions=[
        "a peer that sends an incomplete line or frame and then stays silent is only required to get no handler (the server legitimately keeps waiting)",
        "a stall of the well-behaved client counts against the hostile script only if a control client on a second, untouched server in the same process kept completing round trips meanwhile; if both stall the case is abandoned as machine overload",
        "a recovered panic that only closes the hostile peer's connection is recorded as a label (it is a C02 matter)",
        "declared frame sizes above 2^26 are exercised in the thorough tier only",
    ],
)

CHECKS["C20"] = dict(
    parts=[dict(pkg="net", run="^TestC20_")], level="exploration",
    quick=dict(shards=8, checks=60, timeout=900),
    thorough=dict(shards=16, checks=1500, timeout=3000),
    assumptions=[
        "listener counts are read after quiescence (twice, 100 ms apart); 'cancelled after the channel ends' uses a 10 s bound",
        "an unsubscription that overlaps the close may legitimately see 0 or 1 calls",
    ],
)

CHECKS["C04"] = dict(
    parts=[dict(pkg="net", run="^TestC04_")], level="exploration",
    quick=dict(shards=8, checks=150, timeout=900),
    thorough=dict(shards=16, checks=4000, timeout=3000),
    assumptions=[
        "handler statuses have non-empty codes; an OK status carries no message (the client returns the canonical OK); results are valid spec values",
        "only status code and message are transported (Go error values are not, by design)",
        "for single-byte corruptions of a reply, 'malformed' is decided by reading the bytes through the codec's dynamic API (its leniency about integer width, table order and terminators is not a C04 matter)",
        "lost-connection behaviour of calls is exercised by C09's sessions with the same oracle",
    ],
)

CHECKS["C09"] = dict(
    parts=[dict(pkg="net", run="^TestC09_")], level="fault_enumeration",
    quick=dict(shards=16, checks=40, timeout=1500),
    thorough=dict(shards=16, checks=400, timeout=6000),
    assumptions=[
        "a silent black hole (bytes dropped without FIN/RST) is not generated: the protocol has no heartbeat, and 'transport fails' is read as a failure the local socket can observe",
        "time bounds (10 s) are measured from the moment the FIN/RST is issued by the proxy",
        "goroutine check is a stack-signature check for per-connection/per-channel functions (the library keeps an idle worker pool by design)",
    ],
)

CHECKS["C19"] = dict(
    parts=[dict(pkg="net", run="^TestC19_")], level="exploration",
    quick=dict(shards=8, checks=40, timeout=1200),
    thorough=dict(shards=16, checks=600, timeout=4000),
    assumptions=[
        "quiescent = no call in flight, invariants re-checked until stable (up to 6 s) because the client needs a moment to notice a loss",
        "the connection bound is measured at the proxy: at quiescent points, and as a high-water mark only over intervals without injected kills (proxy-side teardown of a killed connection may overlap the replacement)",
        "back-off is asserted for genuine dial failures (connection refused); a peer that accepts TCP and then resets is outside the stated domain (the client treats the dial as success and retries without delay: noted in DESIGN.md)",
        "observed dial gaps: lower bound 25 ms is sound; monotonicity within 25% tolerance; upper bound 1 s + 1.5 s slack",
    ],
)

CHECKS["C15"] = dict(
    parts=[dict(pkg="lang", run="^TestC15_")], level="exploration",
    quick=dict(shards=4, checks=6000, timeout=900),
    thorough=dict(shards=16, checks=150000, timeout=3000, fuzz=[dict(pkg="lang", target="FuzzParse", seconds=90)]),
    assumptions=[
        "strings are generated without backslashes or quotes (the parser records string literals by trimming the outer quotes only)",
        "an empty import/options section and an empty output list '()' leave no trace in the syntax tree and are not required to",
        "integer literals are decimal per the language (non-decimal forms must be rejected, which oracle 2 checks)",
    ],
)

CHECKS["C14"] = dict(
    parts=[dict(pkg="lang", run="^TestC14_")], level="exploration",
    quick=dict(shards=8, checks=8, timeout=1500),
    thorough=dict(shards=16, checks=48, timeout=6000),
    assumptions=[
        "the compiler is driven through the real cmd/spec binary built from the working tree; `go build` uses the repository toolchain",
        "operators marked reject-or-compile (empty struct) may be accepted as long as the output compiles",
        "error-naming is checked by substring: the message must contain the mutated element's name (definition, field, enum value, method or import id)",
    ],
)

CHECKS["C05"] = dict(
    parts=[dict(pkg="lang", run="^TestC05_")], level="translation_validation",
    quick=dict(shards=8, checks=3, timeout=1500),
    thorough=dict(shards=16, checks=30, timeout=6000),
    assumptions=[
        "names map to distinct Go identifiers and avoid generated method names (the precondition the property states)",
        "float NaN payloads are compared up to quieting (see C10)",
        "services are type-checked (must compile) but not executed end-to-end in this check",
    ],
)


def _post_c05(tier, merged, rundir, infra):
    merged["extra"]["programs"] = int(merged["evaluations"])
    merged["extra"]["disagreements_checked"] = int(merged["labels"].get("value-checks", 0))


CHECKS["C05"]["post"] = _post_c05
