// Package fcmodel is the reference model of MPX per-channel flow control, written from
// the statement of property C07 (not from the implementation).
package fcmodel

// Sender side of one direction.
type Sender struct {
	W    int64 // negotiated window
	Free int64 // free window, may go negative
}

func NewSender(w int64) *Sender { return &Sender{W: w, Free: w} }

// Admits reports whether a Send of size bytes is admitted now:
// free window >= min(size, floor(W/2)).
func (s *Sender) Admits(size int64) bool {
	need := size
	if h := s.W / 2; h < need {
		need = h
	}
	return s.Free >= need
}

// Debit records an admitted (or exempt: opening / closing) payload.
func (s *Sender) Debit(size int64) { s.Free -= size }

// Ack applies a window update.
func (s *Sender) Ack(delta int64) { s.Free += delta }

// Outstanding is the unacknowledged payload.
func (s *Sender) Outstanding() int64 { return s.W - s.Free }

// Bound is the statement's bound on outstanding bytes right after admitting size.
func Bound(w, size int64) int64 {
	b := w - w/2 + size
	if w > b {
		b = w
	}
	return b
}

// Receiver side of one direction.
type Receiver struct {
	W        int64
	Consumed int64 // consumed but not yet acknowledged
}

func NewReceiver(w int64) *Receiver { return &Receiver{W: w} }

// Consume records that the application read a message of size bytes and returns the
// window update to emit (0 = none): acknowledge when consumed >= floor(W/2), with
// exactly the consumed amount.
func (r *Receiver) Consume(size int64) int64 {
	r.Consumed += size
	if r.Consumed >= r.W/2 {
		d := r.Consumed
		r.Consumed = 0
		return d
	}
	return 0
}

// ---- exhaustive exploration of the composed system ----

// State of one direction of one channel in the abstract system.
type State struct {
	Free     int64 // sender free window
	NextMsg  int   // index of the next message to send
	InFlight []int64
	Queue    []int64 // delivered, not consumed
	Consumed int64
	Updates  []int64 // window updates in flight
	Closed   bool
}

// Explore runs a DFS over all interleavings of {send, deliver-data, consume,
// deliver-update} for message sizes msgs (first is the opening payload: exempt) and an
// optional closing payload (exempt, sent after all msgs). It returns the number of
// states and transitions visited and the first violated invariant ("" if none):
// outstanding <= Bound after every admission, and from every state where the next send
// is blocked the closure under {deliver, consume, update} admits it (no stuck state).
func Explore(w int64, msgs []int64, closing int64) (states, transitions int, violation string) {
	type key string
	seen := map[key]bool{}
	enc := func(s *State) key {
		b := make([]byte, 0, 64)
		app := func(v int64) {
			for i := 0; i < 8; i++ {
				b = append(b, byte(v>>(8*i)))
			}
		}
		app(s.Free)
		app(int64(s.NextMsg))
		app(int64(len(s.InFlight)))
		for _, v := range s.InFlight {
			app(v)
		}
		app(int64(len(s.Queue)))
		for _, v := range s.Queue {
			app(v)
		}
		app(s.Consumed)
		app(int64(len(s.Updates)))
		for _, v := range s.Updates {
			app(v)
		}
		return key(b)
	}
	clone := func(s *State) *State {
		c := *s
		c.InFlight = append([]int64(nil), s.InFlight...)
		c.Queue = append([]int64(nil), s.Queue...)
		c.Updates = append([]int64(nil), s.Updates...)
		return &c
	}
	admits := func(s *State, size int64) bool {
		need := size
		if h := w / 2; h < need {
			need = h
		}
		return s.Free >= need
	}
	// drain: closure without sends
	var drainAdmits func(s *State, size int64) bool
	drainAdmits = func(s *State, size int64) bool {
		c := clone(s)
		for {
			progress := false
			for len(c.Updates) > 0 {
				c.Free += c.Updates[0]
				c.Updates = c.Updates[1:]
				progress = true
			}
			for len(c.InFlight) > 0 {
				c.Queue = append(c.Queue, c.InFlight[0])
				c.InFlight = c.InFlight[1:]
				progress = true
			}
			for len(c.Queue) > 0 {
				c.Consumed += c.Queue[0]
				c.Queue = c.Queue[1:]
				if c.Consumed >= w/2 {
					c.Updates = append(c.Updates, c.Consumed)
					c.Consumed = 0
				}
				progress = true
			}
			if !progress {
				break
			}
		}
		return admits(c, size)
	}
	var dfs func(s *State)
	dfs = func(s *State) {
		if violation != "" {
			return
		}
		k := enc(s)
		if seen[k] {
			return
		}
		seen[k] = true
		states++
		// send
		if s.NextMsg < len(msgs) {
			size := msgs[s.NextMsg]
			exempt := s.NextMsg == 0
			if exempt || admits(s, size) {
				c := clone(s)
				c.Free -= size
				c.NextMsg++
				c.InFlight = append(c.InFlight, size)
				if !exempt {
					if out := w - c.Free; out > Bound(w, size) {
						violation = "outstanding exceeds bound"
						return
					}
				}
				transitions++
				dfs(c)
			} else if !drainAdmits(s, size) {
				violation = "stuck: blocked send is never admitted although the receiver consumes everything"
				return
			}
		} else if s.NextMsg == len(msgs) && closing > 0 {
			c := clone(s)
			c.Free -= closing
			c.NextMsg++
			c.InFlight = append(c.InFlight, closing)
			transitions++
			dfs(c)
		}
		if len(s.InFlight) > 0 {
			c := clone(s)
			c.Queue = append(c.Queue, c.InFlight[0])
			c.InFlight = c.InFlight[1:]
			transitions++
			dfs(c)
		}
		if len(s.Queue) > 0 {
			c := clone(s)
			c.Consumed += c.Queue[0]
			c.Queue = c.Queue[1:]
			if c.Consumed >= w/2 {
				c.Updates = append(c.Updates, c.Consumed)
				c.Consumed = 0
			}
			transitions++
			dfs(c)
		}
		if len(s.Updates) > 0 {
			c := clone(s)
			c.Free += c.Updates[0]
			c.Updates = c.Updates[1:]
			transitions++
			dfs(c)
		}
	}
	dfs(&State{Free: w})
	return
}
