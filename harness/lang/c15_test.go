package lang

// C15 — schema parser records exactly what the source says, or errors.

import (
	"bytes"
	"errors"
	"fmt"
	"strings"
	"testing"
	"text/scanner"

	"github.com/basecomplextech/spec/verifhook"
	"pgregory.net/rapid"

	"verifharness/ev"
	"verifharness/gen"
	"verifharness/schema"
)

const c15 = "C15"

type c15case struct {
	Source string `json:"source"`
	Note   string `json:"note,omitempty"`
	Got    string `json:"parser_tree_json,omitempty"`
	Want   string `json:"expected_tree_json,omitempty"`
}

func clipSrc(s string) string {
	if len(s) > 1500 {
		return s[:1500] + "…"
	}
	return s
}

// parse runs the real parser through the hook; panics and nil trees are violations for any text.
func parse(t ev.TB, src, origin string) (js []byte, accepted bool) {
	js, nilTree, err := verifhook.ParseJSON(src)
	var pe *verifhook.PanicError
	if errors.As(err, &pe) {
		ev.Violation(t, c15, "parser-panic", c15case{Source: clipSrc(src), Note: origin}, "parser panicked: %v\n%s", pe.Value, trimLangStack(pe.Stack))
	}
	if nilTree {
		ev.Violation(t, c15, "nil-tree-nil-error", c15case{Source: clipSrc(src), Note: origin}, "parser returned neither a tree nor an error")
	}
	return js, err == nil
}

func trimLangStack(st []byte) string {
	var out []string
	for _, l := range strings.Split(string(st), "\n") {
		if strings.Contains(l, "internal/lang") && !strings.HasPrefix(l, "\t") {
			out = append(out, strings.TrimSpace(l))
		}
		if len(out) > 8 {
			break
		}
	}
	return strings.Join(out, " <- ")
}

// faithful is oracle 2: the significant tokens of an accepted source must be exactly the
// tokens of the canonical rendering of the returned tree.
// lexicallyClean: a text in which the scanner finds a defect (NUL, invalid UTF-8, unterminated comment or
// literal, invalid escape, invalid octal digit) cannot be "recorded exactly": whatever the scanner skipped or
// guessed is missing from the tree. Such a text must produce an error, not a tree.
func lexicallyClean(t ev.TB, src string, js []byte, origin string) {
	if _, n := schema.Tokens(src); n > 0 {
		ev.Violation(t, c15, "lexical-error-accepted", c15case{Source: clipSrc(src), Note: origin, Got: clipSrc(string(js))}, "the text has %d lexical error(s) (as reported by the scanner) but the parser returned a tree and no error", n)
	}
}

func faithful(t ev.TB, src string, js []byte, origin string) {
	tree, err := schema.FromJSON(js)
	kase := c15case{Source: clipSrc(src), Note: origin, Got: clipSrc(string(js))}
	if err != nil {
		ev.Violation(t, c15, "tree-not-printable", kase, "accepted text gives a tree that cannot be printed back: %v", err)
	}
	srcToks, _ := schema.Tokens(src)
	canon := schema.Render(tree, schema.Style{})
	canToks, _ := schema.Tokens(canon)
	a, b := schema.Normalize(srcToks), schema.Normalize(canToks)
	// an empty "import ()" / "options ()" section and an empty output list "()" leave no trace in the tree:
	// remove those token groups from the source side (they carry no information to record)
	a = dropEmptySections(a)
	if i := schema.EqualTokens(a, b); i >= 0 {
		at := func(ts []schema.Token) string {
			lo, hi := i-3, i+4
			if lo < 0 {
				lo = 0
			}
			if hi > len(ts) {
				hi = len(ts)
			}
			var parts []string
			for _, x := range ts[lo:hi] {
				parts = append(parts, x.Text)
			}
			return strings.Join(parts, " ")
		}
		key := "accepted-text-differs"
		if i < len(a) {
			switch a[i].Kind {
			case scanner.Float, scanner.Char, scanner.RawString:
				key += ":token-dropped=" + scanner.TokenString(a[i].Kind)
			case scanner.Int:
				key += ":integer-literal"
			case scanner.String:
				key += ":string-literal"
			}
		}
		kase.Want = clipSrc(canon)
		ev.Violation(t, c15, key, kase, "accepted text and the recorded tree differ at token %d: source has [... %s ...], the tree prints as [... %s ...]", i, at(a), at(b))
	}
}

func dropEmptySections(ts []schema.Token) []schema.Token {
	out := make([]schema.Token, 0, len(ts))
	for i := 0; i < len(ts); i++ {
		if i+2 < len(ts) && ts[i].Kind == scanner.Ident && (ts[i].Text == "import" || ts[i].Text == "options") && ts[i+1].Kind == '(' && ts[i+2].Kind == ')' {
			// only at section position: previous token is not an identifier context where
			// "import" is a name (method named import with empty input "import ()" must stay)
			if i == 0 || ts[i-1].Kind == ')' {
				i += 2
				continue
			}
		}
		// an empty output field list "()" right after the input list or the channel is recorded
		// as "no output"
		if i+1 < len(ts) && ts[i].Kind == '(' && ts[i+1].Kind == ')' && i > 0 && ts[i-1].Kind == ')' {
			i++
			continue
		}
		out = append(out, ts[i])
	}
	return out
}

func TestC15_PrintParseCompare(t *testing.T) {
	ev.Rule(c15, "oracle 1: syntax trees from a grammar-directed generator without semantic constraints (imports with aliases, options, enums, messages, structs, services and subservices with every method shape, contextual keywords and unicode identifiers as names, qualified and list types, integers to 2^31-1), rendered with random whitespace, // and /* */ comments between any two tokens and optional trailing ';' and ','; the parser's tree (encoding/json of its own structs) must equal the expected tree exactly; non-trivial = >=1 service or >=3 definitions; distinct by rendered text hash")
	ev.Check(t, c15, func(rt *rapid.T) {
		s := gen.RapidSrc{T: rt}
		f := schema.SynFile(s)
		src := schema.Render(f, schema.Style{S: s})
		js, ok := parse(rt, src, "generated tree")
		kase := c15case{Source: clipSrc(src)}
		if !ok {
			_, _, err := verifhook.ParseJSON(src)
			ev.Violation(rt, c15, "valid-text-rejected", kase, "text that follows the grammar was rejected: %v", err)
		}
		want := schema.ExpectedJSON(f)
		if !bytes.Equal(js, want) {
			kase.Got, kase.Want = clipSrc(string(js)), clipSrc(string(want))
			ev.Violation(rt, c15, "tree-differs", kase, "parser tree differs from what was written (first difference at byte %d of the JSON rendering)", firstDiffBytes(js, want))
		}
		faithful(rt, src, js, "generated tree (oracle 2 on valid text)")
		nsvc := 0
		for _, d := range f.Defs {
			if d.Kind == schema.DefService || d.Kind == schema.DefSubservice {
				nsvc++
			}
		}
		ev.Case(c15, ev.Hash(src), nsvc > 0 || len(f.Defs) >= 3, fmt.Sprintf("tree:services>0=%v", nsvc > 0))
		if ev.WantSample(c15) {
			ev.Sample(c15, c15case{Source: clipSrc(src)})
		}
	})
}

func firstDiffBytes(a, b []byte) int {
	n := len(a)
	if len(b) < n {
		n = len(b)
	}
	for i := 0; i < n; i++ {
		if a[i] != b[i] {
			return i
		}
	}
	return n
}

var injectTokens = []string{"1.5", "'c'", "`raw`", "0x10", "017", "1_000", "0b11", "9223372036854775808", "18446744073709551616", "\"str\"", "ünï", "-", "=", ";", ",", "(", ")", "{", "}", "[", "]", ".", "<", ">",
	"enum", "oneway", "message", "any", "import", "options", "struct", "service", "subservice", "int32", "X", "0", "7", "@", "#", "\\", "'ab'", "\"unterminated", "/* unterminated", "1e", "0x",
	// a lone opening quote, a lone backquote, a lone apostrophe
	"\"", "`", "'",
	// string values that begin or end with an escaped quote
	"\"\\\"\\\"\"", "\"a\\\"\"", "\"\\\"b\"",
	// defects only the scanner sees while the token stream stays grammatical
	"09", "08", "\"a\\qb\"", "\x00", "\"\xff\"", "/* a \x00 b */", "// \x00\n", "\"\x00\""}

func TestC15_TokenMutants(t *testing.T) {
	ev.Rule(c15, "oracle 2: token-level mutants of generated renderings (delete / duplicate / swap adjacent tokens, replace or insert a token from a hostile alphabet: Float, Char, RawString, non-decimal and oversized integers, non-ASCII identifiers, keywords, punctuation, unterminated literals); the parser must return an error or a tree, never panic, never (nil,nil); when it accepts, the significant tokens of the source must equal the tokens of the canonical printing of the returned tree (subsumes the print-parse-print fixed point); non-trivial = mutant still accepted; distinct by text hash")
	ev.CheckScaled(t, c15, 2, 1, func(rt *rapid.T) {
		s := gen.RapidSrc{T: rt}
		f := schema.SynFile(s)
		base := schema.Render(f, schema.Style{})
		toks, _ := schema.Tokens(base)
		texts := make([]string, len(toks))
		for i, tk := range toks {
			texts[i] = tk.Text
		}
		nm := rapid.IntRange(1, 3).Draw(rt, "nmut")
		var desc []string
		for k := 0; k < nm; k++ {
			if len(texts) == 0 {
				texts = append(texts, injectTokens[rapid.IntRange(0, len(injectTokens)-1).Draw(rt, "inj")])
				continue
			}
			pos := rapid.IntRange(0, len(texts)-1).Draw(rt, "pos")
			switch rapid.IntRange(0, 5).Draw(rt, "op") {
			case 5:
				// the text ends here, right after a hostile token (an opening quote, a comment start, half a number)
				tk := injectTokens[rapid.IntRange(0, len(injectTokens)-1).Draw(rt, "inj")]
				desc = append(desc, fmt.Sprintf("cut after token %d and append %q", pos, tk))
				texts = append(texts[:pos+1:pos+1], tk)
			case 0:
				desc = append(desc, fmt.Sprintf("delete %q", texts[pos]))
				texts = append(texts[:pos], texts[pos+1:]...)
			case 1:
				desc = append(desc, fmt.Sprintf("duplicate %q", texts[pos]))
				texts = append(texts[:pos+1], texts[pos:]...)
			case 2:
				if pos+1 < len(texts) {
					desc = append(desc, fmt.Sprintf("swap %q %q", texts[pos], texts[pos+1]))
					texts[pos], texts[pos+1] = texts[pos+1], texts[pos]
				}
			case 3:
				tk := injectTokens[rapid.IntRange(0, len(injectTokens)-1).Draw(rt, "inj")]
				desc = append(desc, fmt.Sprintf("replace %q by %q", texts[pos], tk))
				texts[pos] = tk
			default:
				tk := injectTokens[rapid.IntRange(0, len(injectTokens)-1).Draw(rt, "inj")]
				atEnd := rapid.IntRange(0, 3).Draw(rt, "atend") == 0
				if atEnd {
					desc = append(desc, fmt.Sprintf("append %q", tk))
					texts = append(texts, tk)
				} else {
					desc = append(desc, fmt.Sprintf("insert %q before %q", tk, texts[pos]))
					texts = append(texts[:pos], append([]string{tk}, texts[pos:]...)...)
				}
			}
		}
		src := strings.Join(texts, " ")
		origin := "mutant: " + strings.Join(desc, "; ")
		js, ok := parse(rt, src, origin)
		if ok {
			lexicallyClean(rt, src, js, origin)
			faithful(rt, src, js, origin)
		}
		ev.Case(c15, ev.Hash(src), ok, fmt.Sprintf("mutant:accepted=%v", ok))
		if ok && ev.WantSample(c15) {
			ev.Sample(c15, c15case{Source: clipSrc(src), Note: origin})
		}
	})
}

// TestC15_Regressions replays the texts that were silently mis-parsed at the pinned commit.
func TestC15_Regressions(t *testing.T) {
	if sh, _ := ev.Shard(); sh != 0 {
		t.Skip("deterministic; shard 0 only")
	}
	for _, src := range []string{
		"'a' enum E { A = 0; }", "enum E { A = 0; } 1.5", "message M { a int32 1 } 1.5 2.5 'c'", "1.5", "enum E { A = 0x10; }", "message M { a int32 1_000 }",
		"enum E { A = 18446744073709551616; }", "", "import ()", "options ( a = \"b\" )", "service S { m (); }", "service S { import (any) oneway; }",
	} {
		js, ok := parse(t, src, "regression")
		if ok {
			faithful(t, src, js, "regression")
		}
		ev.Case(c15, ev.Hash("reg", src), true, "regression")
	}
}
