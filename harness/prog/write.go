// Package prog lowers value trees (gen.Node) to calls of the library's public writer
// API with generated style choices, and checks what the public reader API returns
// against the tree.
package prog

import (
	"fmt"
	"math"
	"sort"

	"github.com/basecomplextech/baselibrary/bin"
	"github.com/basecomplextech/baselibrary/buffer"
	spec "github.com/basecomplextech/spec"

	"verifharness/gen"
)

// Exec carries the style source and records which API features a program used.
type Exec struct {
	S     gen.Src
	Feats map[string]bool
	// NoRaw disables Any/Copy/Merge styles (used where only direct writes are wanted).
	NoRaw bool
	// Trace, when non-nil, receives a readable line per API call.
	Trace *[]string
}

func NewExec(s gen.Src) *Exec { return &Exec{S: s, Feats: map[string]bool{}} }

func (x *Exec) feat(f string) { x.Feats[f] = true }

func (x *Exec) tr(format string, a ...any) {
	if x.Trace != nil && len(*x.Trace) < 400 {
		*x.Trace = append(*x.Trace, fmt.Sprintf(format, a...))
	}
}

type scalarSink interface {
	Bool(bool) error
	Byte(byte) error
	Int16(int16) error
	Int32(int32) error
	Int64(int64) error
	Uint16(uint16) error
	Uint32(uint32) error
	Uint64(uint64) error
	Float32(float32) error
	Float64(float64) error
	Bin64(bin.Bin64) error
	Bin128(bin.Bin128) error
	Bin256(bin.Bin256) error
	Bytes([]byte) error
	String(string) error
}

func B64(b []byte) bin.Bin64 {
	var a [8]byte
	copy(a[:], b)
	return bin.New64(a)
}
func B128(b []byte) bin.Bin128 {
	var a [16]byte
	copy(a[:], b)
	return bin.New128(a)
}
func B256(b []byte) bin.Bin256 {
	var a [32]byte
	copy(a[:], b)
	return bin.New256(a)
}

func putScalar(s scalarSink, n *gen.Node) error {
	switch n.Kind {
	case gen.KBool:
		return s.Bool(n.I != 0)
	case gen.KByte:
		return s.Byte(byte(n.I))
	case gen.KInt16:
		return s.Int16(int16(n.I))
	case gen.KInt32:
		return s.Int32(int32(n.I))
	case gen.KInt64:
		return s.Int64(n.I)
	case gen.KUint16:
		return s.Uint16(uint16(n.U))
	case gen.KUint32:
		return s.Uint32(uint32(n.U))
	case gen.KUint64:
		return s.Uint64(n.U)
	case gen.KFloat32:
		return s.Float32(math.Float32frombits(uint32(n.U)))
	case gen.KFloat64:
		return s.Float64(math.Float64frombits(n.U))
	case gen.KBin64:
		return s.Bin64(B64(n.B))
	case gen.KBin128:
		return s.Bin128(B128(n.B))
	case gen.KBin256:
		return s.Bin256(B256(n.B))
	case gen.KBytes:
		return s.Bytes(n.B)
	case gen.KString:
		return s.String(string(n.B))
	}
	return fmt.Errorf("prog: putScalar: kind %v", n.Kind)
}

// EncodeScalar appends the standalone encoding of a scalar through the public Encode* functions.
func EncodeScalar(buf buffer.Buffer, n *gen.Node) (int, error) {
	switch n.Kind {
	case gen.KBool:
		return spec.EncodeBool(buf, n.I != 0)
	case gen.KByte:
		return spec.EncodeByte(buf, byte(n.I))
	case gen.KInt16:
		return spec.EncodeInt16(buf, int16(n.I))
	case gen.KInt32:
		return spec.EncodeInt32(buf, int32(n.I))
	case gen.KInt64:
		return spec.EncodeInt64(buf, n.I)
	case gen.KUint16:
		return spec.EncodeUint16(buf, uint16(n.U))
	case gen.KUint32:
		return spec.EncodeUint32(buf, uint32(n.U))
	case gen.KUint64:
		return spec.EncodeUint64(buf, n.U)
	case gen.KFloat32:
		return spec.EncodeFloat32(buf, math.Float32frombits(uint32(n.U)))
	case gen.KFloat64:
		return spec.EncodeFloat64(buf, math.Float64frombits(n.U))
	case gen.KBin64:
		return spec.EncodeBin64(buf, B64(n.B))
	case gen.KBin128:
		return spec.EncodeBin128(buf, B128(n.B))
	case gen.KBin256:
		return spec.EncodeBin256(buf, B256(n.B))
	case gen.KBytes:
		return spec.EncodeBytes(buf, n.B)
	case gen.KString:
		return spec.EncodeString(buf, string(n.B))
	}
	return 0, fmt.Errorf("prog: EncodeScalar: kind %v", n.Kind)
}

// WriteStruct is a WriteFunc in the shape the generator emits for structs: members in
// declaration order, then the struct trailer.
func WriteStruct(buf buffer.Buffer, n *gen.Node) (int, error) {
	size := 0
	for _, m := range n.Elems {
		k, err := EncodeScalar(buf, m)
		if err != nil {
			return 0, err
		}
		size += k
	}
	k, err := spec.EncodeStruct(buf, size)
	if err != nil {
		return 0, err
	}
	return size + k, nil
}

// writeNodeFunc is a WriteFunc for any scalar or struct node.
func writeNodeFunc(buf buffer.Buffer, n *gen.Node) (int, error) {
	if n.Kind == gen.KStruct {
		return WriteStruct(buf, n)
	}
	return EncodeScalar(buf, n)
}

// Standalone encodes n with a fresh root writer and returns a private copy of the bytes.
func (x *Exec) Standalone(n *gen.Node) ([]byte, *gen.Node, error) {
	sub := &Exec{S: x.S, Feats: x.Feats, NoRaw: x.NoRaw, Trace: x.Trace}
	x.tr("standalone{")
	b, eff, err := sub.Build(n)
	x.tr("}")
	return b, eff, err
}

// Build encodes n as a root value via a drawn root constructor. It returns a private
// copy of the bytes and the effective tree (fields in the order they were actually laid out).
func (x *Exec) Build(n *gen.Node) ([]byte, *gen.Node, error) {
	var prefix []byte
	newBuf := func() buffer.Buffer {
		buf := buffer.New()
		if x.S.Intn(3, "bufprefix") == 0 {
			// pre-existing content: the writer must append after it
			prefix = x.S.Bytes(1+x.S.Intn(90, "prefixlen"), "prefix")
			buf.Write(prefix)
			x.feat("root:buffer-with-prefix")
		}
		return buf
	}
	fin := func(b []byte, eff *gen.Node, err error) ([]byte, *gen.Node, error) {
		if err != nil {
			return nil, nil, err
		}
		return append([]byte(nil), b...), eff, nil
	}
	switch n.Kind {
	case gen.KMessage:
		var m spec.MessageWriter
		var w spec.Writer
		switch x.S.Intn(6, "rootmsg") {
		case 0:
			w = spec.NewWriter()
			m = w.Message()
			x.feat("root:NewWriter.Message")
		case 1:
			w = spec.NewWriterBuffer(newBuf())
			m = w.Message()
			x.feat("root:NewWriterBuffer.Message")
		case 2:
			m = spec.NewMessageWriter()
			x.feat("root:NewMessageWriter")
		case 3:
			m = spec.NewMessageWriterBuffer(newBuf())
			x.feat("root:NewMessageWriterBuffer")
		case 4:
			w = spec.NewWriter()
			m = w.Value().Message()
			x.feat("root:Value.Message")
		default:
			m = spec.NewValueWriter().Message()
			x.feat("root:NewValueWriter.Message")
		}
		x.tr("root message")
		eff, err := x.fillMessage(m, n)
		if err != nil {
			if w != nil {
				w.Free()
			}
			return nil, nil, err
		}
		b, err := m.Build()
		out, e2, e3 := fin(b, eff, err)
		if w != nil {
			w.Free()
		}
		return out, e2, e3
	case gen.KList:
		var l spec.ListWriter
		var w spec.Writer
		switch x.S.Intn(5, "rootlist") {
		case 0:
			w = spec.NewWriter()
			l = w.List()
			x.feat("root:NewWriter.List")
		case 1:
			w = spec.NewWriterBuffer(newBuf())
			l = w.List()
			x.feat("root:NewWriterBuffer.List")
		case 2:
			l = spec.NewListWriter()
			x.feat("root:NewListWriter")
		case 3:
			l = spec.NewListWriterBuffer(newBuf())
			x.feat("root:NewListWriterBuffer")
		default:
			l = spec.NewValueWriter().List()
			x.feat("root:NewValueWriter.List")
		}
		x.tr("root list")
		eff, err := x.fillList(l, n)
		if err != nil {
			if w != nil {
				w.Free()
			}
			return nil, nil, err
		}
		b, err := l.Build()
		out, e2, e3 := fin(b, eff, err)
		if w != nil {
			w.Free()
		}
		return out, e2, e3
	default:
		// scalar / struct root
		switch x.S.Intn(4, "rootval") {
		case 0:
			buf := buffer.New()
			x.feat("root:Encode*")
			x.tr("Encode %s", n.Render(60))
			if _, err := writeNodeFunc(buf, n); err != nil {
				return nil, nil, err
			}
			return append([]byte(nil), buf.Bytes()...), n, nil
		default:
			var v spec.ValueWriter
			var w spec.Writer
			switch x.S.Intn(3, "rootvalw") {
			case 0:
				w = spec.NewWriter()
				v = w.Value()
				x.feat("root:NewWriter.Value")
			case 1:
				v = spec.NewValueWriter()
				x.feat("root:NewValueWriter")
			default:
				v = spec.NewValueWriterBuffer(newBuf())
				x.feat("root:NewValueWriterBuffer")
			}
			var err error
			if n.Kind == gen.KStruct {
				// structs go through the raw path: encode and write as Any
				buf := buffer.New()
				if _, err = WriteStruct(buf, n); err == nil {
					err = v.Any(buf.Bytes())
				}
				x.tr("Value.Any(struct)")
			} else {
				err = putScalar(v, n)
				x.tr("Value.%s", n.Render(60))
			}
			if err != nil {
				if w != nil {
					w.Free()
				}
				return nil, nil, err
			}
			b, err := v.Build()
			out, e2, e3 := fin(b, n, err)
			if w != nil {
				w.Free()
			}
			return out, e2, e3
		}
	}
}

func (x *Exec) writeField(m spec.MessageWriter, tag uint16, v *gen.Node) (*gen.Node, error) {
	f := m.Field(tag)
	switch v.Kind {
	case gen.KMessage, gen.KList:
		if !x.NoRaw && x.S.Intn(4, "fieldcontainer") == 0 {
			raw, eff, err := x.Standalone(v)
			if err != nil {
				return nil, err
			}
			x.feat("Field.Any(container)")
			x.tr("Field(%d).Any(%d bytes)", tag, len(raw))
			return eff, f.Any(raw)
		}
		if v.Kind == gen.KMessage {
			x.tr("Field(%d).Message{", tag)
			sub := f.Message()
			eff, err := x.fillMessage(sub, v)
			if err != nil {
				return nil, err
			}
			x.tr("}End")
			x.feat("Field.Message")
			return eff, sub.End()
		}
		x.tr("Field(%d).List[", tag)
		sub := f.List()
		eff, err := x.fillList(sub, v)
		if err != nil {
			return nil, err
		}
		x.tr("]End")
		x.feat("Field.List")
		return eff, sub.End()
	case gen.KStruct:
		if !x.NoRaw && x.S.Intn(3, "fieldstruct") == 0 {
			buf := buffer.New()
			if _, err := WriteStruct(buf, v); err != nil {
				return nil, err
			}
			x.feat("Field.Any(struct)")
			x.tr("Field(%d).Any(struct)", tag)
			return v, f.Any(buf.Bytes())
		}
		x.feat("WriteField(struct)")
		x.tr("WriteField(%d, struct)", tag)
		return v, spec.WriteField(f, v, WriteStruct)
	}
	style := x.S.Intn(6, "fieldstyle")
	switch {
	case style == 0:
		x.feat("WriteField(scalar)")
		x.tr("WriteField(%d, %s)", tag, v.Render(60))
		return v, spec.WriteField(f, v, EncodeScalar)
	case style == 1 && !x.NoRaw:
		buf := buffer.New()
		if _, err := EncodeScalar(buf, v); err != nil {
			return nil, err
		}
		x.feat("Field.Any(scalar)")
		x.tr("Field(%d).Any(%s)", tag, v.Render(60))
		return v, f.Any(buf.Bytes())
	}
	x.feat("Field.typed")
	x.tr("Field(%d).%s", tag, v.Render(60))
	return v, putScalar(f, v)
}

func (x *Exec) fillMessage(m spec.MessageWriter, n *gen.Node) (*gen.Node, error) {
	eff := &gen.Node{Kind: gen.KMessage}
	fields := n.Fields
	var copied []gen.Field
	if !x.NoRaw && len(fields) > 0 && x.S.Intn(5, "copysplit") == 0 {
		// a generated subset goes through Copy/Merge from a parsed message
		k := 1 + x.S.Intn(len(fields), "copyk")
		mask := make([]bool, len(fields))
		for i := 0; i < k; i++ {
			mask[x.S.Intn(len(fields), "copyidx")] = true
		}
		var pre []gen.Field
		for i, f := range fields {
			if mask[i] {
				copied = append(copied, f)
			} else {
				pre = append(pre, f)
			}
		}
		fields = pre
	}
	for _, f := range fields {
		e, err := x.writeField(m, f.Tag, f.V)
		if err != nil {
			return nil, err
		}
		eff.Fields = append(eff.Fields, gen.Field{Tag: f.Tag, V: e})
		if x.S.Intn(16, "hasfieldprobe") == 0 {
			if !m.HasField(f.Tag) {
				return nil, fmt.Errorf("prog: MessageWriter.HasField(%d) false right after the field was written", f.Tag)
			}
		}
	}
	if copied != nil {
		src := &gen.Node{Kind: gen.KMessage, Fields: append([]gen.Field(nil), copied...)}
		// optionally add decoys: tags already written with different values; pre-written fields must win
		decoys := 0
		if len(fields) > 0 && x.S.Intn(2, "decoy") == 0 {
			d := fields[x.S.Intn(len(fields), "decoyidx")]
			src.Fields = append(src.Fields, gen.Field{Tag: d.Tag, V: gen.Int64(0x5eed0000 + int64(d.Tag))})
			decoys++
			x.feat("Copy:decoy-overlap")
		}
		raw, seff, err := x.Standalone(src)
		if err != nil {
			return nil, err
		}
		pm := spec.OpenMessage(raw)
		if x.S.Intn(2, "copyormerge") == 0 {
			x.feat("Copy")
			x.tr("Copy(%d fields)", len(src.Fields))
			err = m.Copy(pm)
		} else {
			x.feat("Merge")
			x.tr("Merge(%d fields)", len(src.Fields))
			err = m.Merge(pm)
		}
		if err != nil {
			return nil, err
		}
		// effective order: copied fields in ascending tag order, decoys skipped
		byTag := map[uint16]*gen.Node{}
		for _, f := range seff.Fields {
			byTag[f.Tag] = f.V
		}
		cp := append([]gen.Field(nil), copied...)
		sort.Slice(cp, func(i, j int) bool { return cp[i].Tag < cp[j].Tag })
		for _, f := range cp {
			eff.Fields = append(eff.Fields, gen.Field{Tag: f.Tag, V: byTag[f.Tag]})
		}
	}
	return eff, nil
}

func (x *Exec) writeElem(l spec.ListWriter, v *gen.Node) (*gen.Node, error) {
	switch v.Kind {
	case gen.KMessage, gen.KList:
		if !x.NoRaw && x.S.Intn(4, "elemcontainer") == 0 {
			raw, eff, err := x.Standalone(v)
			if err != nil {
				return nil, err
			}
			x.feat("List.Any(container)")
			x.tr("Elem.Any(%d bytes)", len(raw))
			return eff, l.Any(raw)
		}
		if v.Kind == gen.KMessage {
			var sub spec.MessageWriter
			if x.S.Intn(3, "msglistwriter") == 0 {
				mlw := spec.NewMessageListWriter(l, func(w spec.MessageWriter) spec.MessageWriter { return w })
				sub = mlw.Add()
				x.feat("MessageListWriter.Add")
			} else {
				sub = l.Message()
				x.feat("List.Message")
			}
			x.tr("Elem.Message{")
			eff, err := x.fillMessage(sub, v)
			if err != nil {
				return nil, err
			}
			x.tr("}End")
			return eff, sub.End()
		}
		x.tr("Elem.List[")
		sub := l.List()
		eff, err := x.fillList(sub, v)
		if err != nil {
			return nil, err
		}
		x.tr("]End")
		x.feat("List.List")
		return eff, sub.End()
	case gen.KStruct:
		if !x.NoRaw && x.S.Intn(3, "elemstruct") == 0 {
			buf := buffer.New()
			if _, err := WriteStruct(buf, v); err != nil {
				return nil, err
			}
			x.feat("List.Any(struct)")
			x.tr("Elem.Any(struct)")
			return v, l.Any(buf.Bytes())
		}
		x.feat("ValueListWriter(struct)")
		x.tr("ValueListWriter.Add(struct)")
		return v, spec.NewValueListWriter(l, WriteStruct).Add(v)
	}
	style := x.S.Intn(6, "elemstyle")
	switch {
	case style == 0:
		x.feat("ValueListWriter(scalar)")
		x.tr("ValueListWriter.Add(%s)", v.Render(60))
		return v, spec.NewValueListWriter(l, EncodeScalar).Add(v)
	case style == 1 && !x.NoRaw:
		buf := buffer.New()
		if _, err := EncodeScalar(buf, v); err != nil {
			return nil, err
		}
		x.feat("List.Any(scalar)")
		x.tr("Elem.Any(%s)", v.Render(60))
		return v, l.Any(buf.Bytes())
	}
	x.feat("List.typed")
	x.tr("Elem.%s", v.Render(60))
	return v, putScalar(l, v)
}

func (x *Exec) fillList(l spec.ListWriter, n *gen.Node) (*gen.Node, error) {
	eff := &gen.Node{Kind: gen.KList}
	for i, e := range n.Elems {
		ee, err := x.writeElem(l, e)
		if err != nil {
			return nil, err
		}
		eff.Elems = append(eff.Elems, ee)
		if x.S.Intn(16, "lenprobe") == 0 {
			if got := l.Len(); got != i+1 {
				return nil, fmt.Errorf("prog: ListWriter.Len() = %d after %d elements", got, i+1)
			}
		}
	}
	return eff, nil
}

// BuildWith encodes n as the root value of the given writer (which the caller owns).
// The returned bytes alias the writer's buffer.
func (x *Exec) BuildWith(w spec.Writer, n *gen.Node) ([]byte, *gen.Node, error) {
	switch n.Kind {
	case gen.KMessage:
		m := w.Message()
		eff, err := x.fillMessage(m, n)
		if err != nil {
			return nil, nil, err
		}
		b, err := m.Build()
		return b, eff, err
	case gen.KList:
		l := w.List()
		eff, err := x.fillList(l, n)
		if err != nil {
			return nil, nil, err
		}
		b, err := l.Build()
		return b, eff, err
	}
	v := w.Value()
	var err error
	if n.Kind == gen.KStruct {
		buf := buffer.New()
		if _, err = WriteStruct(buf, n); err == nil {
			err = v.Any(buf.Bytes())
		}
	} else {
		err = putScalar(v, n)
	}
	if err != nil {
		return nil, nil, err
	}
	b, err := v.Build()
	return b, n, err
}

// FillBuildMessage writes n's fields into an already opened root message writer and builds it.
func (x *Exec) FillBuildMessage(m spec.MessageWriter, n *gen.Node) ([]byte, error) {
	if _, err := x.fillMessage(m, n); err != nil {
		return nil, err
	}
	return m.Build()
}

// FillBuildList writes n's elements into an already opened root list writer and builds it.
func (x *Exec) FillBuildList(l spec.ListWriter, n *gen.Node) ([]byte, error) {
	if _, err := x.fillList(l, n); err != nil {
		return nil, err
	}
	return l.Build()
}

// FillOnly writes n's fields into an open message writer without ending it.
func (x *Exec) FillOnly(m spec.MessageWriter, n *gen.Node) (*gen.Node, error) {
	return x.fillMessage(m, n)
}
