#!/bin/bash
# usage: SEED_SUFFIX=r2 tools/eval_seed.sh <ID> <in-worktree-dir-for-demo or "standalone"> <demo file or cmd> [run regexp]
# One-stop evaluation of a sub-agent's seed: patch applies on HEAD, build + suite, demo both ways, quick check.
id=$1; where=$2; what=$3; re=${4:-Test}
S=${SEED_SUFFIX:-out}
export GOFLAGS=-mod=mod GOPROXY=off
out=/tmp/seed/$id.$S
echo "### $id ($S)"
/verif/tools/confirm_seed.sh $id 2>&1 | grep -E "patch:|DOES NOT|FAIL|panic" | head -5
w=/tmp/verif-mut/confirm-$id
if [ "$where" = "standalone" ]; then
  /verif/tools/demo_both.sh $id "$what" 2>&1 | grep -E "^(ok|FAIL|==|---)" | head -12
else
  cp $out/demo/$what $w/$where/ && (cd $w; echo "== WITH"; go test -vet=off -count=1 -run "$re" ./$where/ 2>&1 | tail -2 | cut -c1-200; git apply -R $out/patch.diff; echo "== WITHOUT"; go test -vet=off -count=1 -run "$re" ./$where/ 2>&1 | tail -1 | cut -c1-200)
fi
git -C /repo worktree remove --force $w
MUT_TIMEOUT=${MUT_TIMEOUT:-1500} /verif/tools/mutant.sh seed$id $out/patch.diff ${CHECK:-$id} 2>&1 | tail -3 | cut -c1-350
