package net

import (
	"fmt"
	"os"
	"runtime"
	"strconv"
	"strings"
	"sync"
	"sync/atomic"
	"time"

	"github.com/basecomplextech/baselibrary/async"
	"github.com/basecomplextech/baselibrary/status"
	"github.com/basecomplextech/baselibrary/units"
	"github.com/basecomplextech/spec/mpx"
	"pgregory.net/rapid"

	"verifharness/ev"
	"verifharness/netfx"
)

var windowChoices = []int{1, 2, 3, 7, 64, 1000, 65536, 0} // 0 = library default (16 MiB)
var bufChoices = []int{16, 17, 100, 4096, 0}

type netConfig struct {
	Window      int       `json:"window"`
	WriteQueue  int       `json:"write_queue"`
	ReadBuf     int       `json:"read_buffer"`
	WriteBuf    int       `json:"write_buffer"`
	Compression bool      `json:"compression"`
	Procs       int       `json:"gomaxprocs"`
	Sched       schedPlan `json:"schedule_perturbation"`
	// Pauses: the connections go through a proxy that suspends forwarding in one direction for a while
	// (back-pressure: socket buffers and then the sender's write queue fill up); nothing is lost or reordered
	Pauses []pauseSpec `json:"forwarding_pauses,omitempty"`
}

type pauseSpec struct {
	Dir     int `json:"direction"` // 0 client->server, 1 server->client
	AfterMs int `json:"after_ms"`
	ForMs   int `json:"for_ms"`
}

func drawConfig(rt *rapid.T) netConfig {
	return netConfig{
		Window:      windowChoices[rapid.IntRange(0, len(windowChoices)-1).Draw(rt, "window")],
		WriteQueue:  bufChoices[rapid.IntRange(0, len(bufChoices)-1).Draw(rt, "writeq")],
		ReadBuf:     bufChoices[rapid.IntRange(0, len(bufChoices)-1).Draw(rt, "readbuf")],
		WriteBuf:    bufChoices[rapid.IntRange(0, len(bufChoices)-1).Draw(rt, "writebuf")],
		Compression: rapid.Bool().Draw(rt, "compression"),
		Procs:       []int{1, 2, 16}[rapid.IntRange(0, 2).Draw(rt, "procs")],
	}
}

func (c netConfig) options() mpx.Options {
	o := mpx.Default()
	o.Compression = c.Compression
	if c.Window > 0 {
		o.ChannelWindowSize = units.Bytes(c.Window)
	}
	if c.WriteQueue > 0 {
		o.WriteQueueSize = units.Bytes(c.WriteQueue)
	}
	if c.ReadBuf > 0 {
		o.ReadBufferSize = units.Bytes(c.ReadBuf)
	}
	if c.WriteBuf > 0 {
		o.WriteBufferSize = units.Bytes(c.WriteBuf)
	}
	return o
}

func (c netConfig) effWindow() int {
	if c.Window > 0 {
		return c.Window
	}
	return 16 << 20
}

// drawSize draws a message size relative to the window, capped.
func drawSize(rt *rapid.T, w int, label string) int {
	cands := []int{1, 2, w/2 - 1, w / 2, w/2 + 1, w - 1, w, w + 1, 2 * w, 3 * w, 17, 100}
	n := cands[rapid.IntRange(0, len(cands)-1).Draw(rt, label)]
	if n < 1 {
		n = 1
	}
	if w >= 1<<20 {
		// default window: keep payloads bounded, but include sizes above the read/write buffers
		n = []int{1, 16, 17, 100, 4096, 40000, 70000, 200000}[rapid.IntRange(0, 7).Draw(rt, label+"/big")]
	}
	if n > 256<<10 {
		n = 256 << 10
	}
	return n
}

var chanSeq atomic.Uint32

// withProcs runs f under the given GOMAXPROCS.
func withProcs(n int, f func()) {
	if n <= 0 {
		f() // leave the scheduler setting alone (concurrent callers)
		return
	}
	old := runtime.GOMAXPROCS(n)
	defer runtime.GOMAXPROCS(old)
	f()
}

// goroutineDump returns module-related goroutine stacks (bounded).
func goroutineDump() string {
	buf := make([]byte, 1<<20)
	n := runtime.Stack(buf, true)
	var out []string
	for _, g := range strings.Split(string(buf[:n]), "\n\n") {
		if strings.Contains(g, "basecomplextech/spec") || strings.Contains(g, "verifharness") {
			lines := strings.Split(g, "\n")
			if len(lines) > 14 {
				lines = lines[:14]
			}
			out = append(out, strings.Join(lines, "\n"))
		}
		if len(out) > 30 {
			break
		}
	}
	if f := os.Getenv("VERIF_HANG_DUMP"); f != "" {
		os.WriteFile(f, buf[:n], 0o644)
	}
	return strings.Join(out, "\n\n")
}

// waitGroupTimeout waits for wg; false on timeout.
func waitGroupTimeout(wg *sync.WaitGroup, d time.Duration) bool {
	done := make(chan struct{})
	go func() { wg.Wait(); close(done) }()
	select {
	case <-done:
		return true
	case <-time.After(d):
		return false
	}
}

func stOK(st status.Status) bool { return st.OK() }

func ctxNone() async.Context { return async.NoContext() }

// errs collects failures from goroutines.
type errs struct {
	mu   sync.Mutex
	list []string
}

func (e *errs) addf(format string, a ...any) {
	e.mu.Lock()
	if len(e.list) < 20 {
		e.list = append(e.list, fmt.Sprintf(format, a...))
	}
	e.mu.Unlock()
}

func (e *errs) first() string {
	e.mu.Lock()
	defer e.mu.Unlock()
	if len(e.list) == 0 {
		return ""
	}
	return strings.Join(e.list, " | ")
}

func libraryPanicText(log *netfx.RecLogger) string {
	ps := log.LibraryPanics()
	if len(ps) == 0 {
		return ""
	}
	return fmt.Sprintf("%s: %s [%s]", ps[0].Message, ps[0].Status, ps[0].Stack)
}

func hangTimeout() time.Duration {
	if s := os.Getenv("VERIF_HANG_S"); s != "" {
		if n, err := strconv.Atoi(s); err == nil {
			return ev.Bound(time.Duration(n) * time.Second)
		}
	}
	return ev.Bound(60 * time.Second)
}

// async30 returns a context that times out after 30 s.
func async30() async.Context { return async.TimeoutContext(30 * time.Second) }
