package lang

// C05 — generated Go code is a faithful translation of the schema.

import (
	"fmt"
	"os"
	"path/filepath"
	"regexp"
	"strconv"
	"strings"
	"testing"
	"time"

	"pgregory.net/rapid"

	"verifharness/ev"
	"verifharness/gen"
	"verifharness/schema"
)

const c05 = "C05"

type c05case struct {
	Sources string `json:"schema_sources"`
	Output  string `json:"output,omitempty"`
}

var statsRe = regexp.MustCompile(`VERIF-C05-STATS pkg=(\S+) evaluations=(\d+) messages=(\d+) structs=(\d+) enums=(\d+)`)
var violRe = regexp.MustCompile(`VERIF-C05-VIOLATION (key=(\S+) msg=[^\n]*)`)

// buildAndEmit writes the set, runs the generator and emits the drivers.
func buildAndEmit(ws *Workspace, set *schema.Set, st schema.Style) (key, msg, out string) {
	for _, p := range set.Pkgs {
		if err := ws.WritePackage(p, st); err != nil {
			return "infra", err.Error(), ""
		}
	}
	for _, p := range set.Pkgs {
		r := ws.Generate(p.ID, "")
		switch {
		case r.Exit == -2:
			return "infra", r.Out, ""
		case r.Exit != 0 || r.Panic || r.TimedOut:
			return "valid-schema-not-generated", fmt.Sprintf("spec generate %s failed (exit %d)", p.ID, r.Exit), r.Out
		}
		helper, test := schema.EmitPackage(set, p, 0)
		if err := os.WriteFile(filepath.Join(ws.Dir, p.ID, "zz_verif.go"), []byte(helper), 0o644); err != nil {
			return "infra", err.Error(), ""
		}
		if err := os.WriteFile(filepath.Join(ws.Dir, p.ID, "zz_verif_test.go"), []byte(test), 0o644); err != nil {
			return "infra", err.Error(), ""
		}
	}
	return "", "", ""
}

func TestC05_GeneratedCode(t *testing.T) {
	ev.Rule(c05, "translation validation: schema sets from the semantic generator (1..3 packages, imports with and without aliases, go_package options, every field kind incl. any/message, enums, nested structs, lists of every allowed element kind, keyword-named fields, tags to 65535, services with all method shapes) under the Go-name hygiene precondition are compiled with the real `spec generate`; the harness emits into every generated package a driver that, for random values of every declared message, struct and enum, checks: generated writer -> generated reader returns the value (presence included); the writer's bytes read by tag through an independent decoder give exactly the declared tags and wire types and equal the tag-based encoding byte for byte; bytes written by tag are read back by the generated accessors; struct EncodeTo/Decode are inverse with consistent sizes; enum constants and codecs; regeneration (3 runs) yields identical files; services must type-check; programs = schema sets, disagreements_checked = emitted value checks executed; non-trivial = >=2 definitions and >=1 of {list, struct, enum, import, keyword name, tag>255}")
	ev.CheckScaled(t, c05, 1, 1, func(rt *rapid.T) {
		s := gen.RapidSrc{T: rt}
		set, feats := schema.GenSet(s, "vmod")
		ws, err := NewWorkspace("vmod")
		if err != nil {
			ev.InfraSkip(rt, c05, "%v", err)
		}
		defer ws.Remove()
		kase := c05case{Sources: setSources(set)}
		key, msg, out := buildAndEmit(ws, set, schema.Style{S: s})
		if key == "infra" {
			ev.InfraSkip(rt, c05, "%s", msg)
		}
		if key != "" {
			kase.Output = clipOut(out)
			ev.Violation(rt, c05, key, kase, "%s", msg)
		}
		// regeneration determinism
		for _, p := range set.Pkgs {
			first, err := readGenerated(filepath.Join(ws.Dir, p.ID))
			if err != nil {
				ev.InfraSkip(rt, c05, "%v", err)
			}
			for round := 0; round < 2; round++ {
				dst := filepath.Join(ws.Dir, fmt.Sprintf("regen_%s_%d", p.ID, round))
				os.MkdirAll(dst, 0o755)
				r := ws.Generate(p.ID, dst)
				if r.Exit != 0 {
					kase.Output = clipOut(r.Out)
					ev.Violation(rt, c05, "regeneration-failed", kase, "second generation of %s failed", p.ID)
				}
				again, err := readGenerated(dst)
				if err != nil {
					ev.InfraSkip(rt, c05, "%v", err)
				}
				if len(again) != len(first) {
					ev.Violation(rt, c05, "regeneration-differs", kase, "regenerating %s produced %d files, first run %d", p.ID, len(again), len(first))
				}
				for name, content := range first {
					if again[name] != content {
						ev.Violation(rt, c05, "regeneration-differs", kase, "regenerating %s from the same sources gives a different %s", p.ID, name)
					}
				}
				os.RemoveAll(dst)
			}
		}
		var ids []string
		for _, p := range set.Pkgs {
			ids = append(ids, p.ID)
		}
		seed := rapid.IntRange(1, 1<<30).Draw(rt, "driverseed")
		o, ok, timedOut := ws.GoTest(10*time.Minute, []string{"-v", "-run", "TestVerifC05", "-rapid.checks=60", "-rapid.seed=" + strconv.Itoa(seed), "-rapid.nofailfile"}, ids...)
		if timedOut {
			ev.InfraSkip(rt, c05, "emitted drivers did not finish in 10 min")
		}
		if m := violRe.FindStringSubmatch(o); m != nil {
			kase.Output = clipOut(m[1])
			ev.Violation(rt, c05, "generated:"+m[2], kase, "%s", m[1])
		}
		if !ok {
			kase.Output = clipOut(o)
			if strings.Contains(o, "[build failed]") || strings.Contains(o, "cannot use") || strings.Contains(o, "undefined:") {
				ev.Violation(rt, c05, "generated-code-does-not-compile", kase, "generated code (or the driver that uses its documented API) does not compile")
			}
			ev.Violation(rt, c05, "driver-failed", kase, "emitted driver failed without a violation line")
		}
		var evals int64
		for _, m := range statsRe.FindAllStringSubmatch(o, -1) {
			v, _ := strconv.ParseInt(m[2], 10, 64)
			evals += v
		}
		ev.Label(c05, "value-checks", evals)
		nd := 0
		for _, p := range set.Pkgs {
			for _, f := range p.Files {
				nd += len(f.Defs)
			}
		}
		var ls []string
		for f := range feats {
			ls = append(ls, "feature:"+f)
		}
		ev.Case(c05, ev.Hash(setSources(set)), nd >= 2 && len(feats) > 0, ls...)
		if ev.WantSample(c05) {
			ev.Sample(c05, c05case{Sources: setSources(set)})
		}
		func() {
			// ---- regeneration over an older output (runs last: it edits the sources) ----
			// `spec generate` normally writes next to the sources, over the files of the previous
			// run. A same-length edit of a scalar type (int32<->int64, uint16<->uint32, float32<->float64)
			// is applied to one field; generating in place over the old output and generating the
			// edited sources into an empty directory must give identical files.
			sibling := map[string]string{"int16": "int32", "int32": "int64", "int64": "int16", "uint16": "uint32", "uint32": "uint64", "uint64": "uint16", "float32": "float64", "float64": "float32"}
			type site struct {
				p    *schema.Package
				f    *schema.Field
				name string
			}
			var sites []site
			for _, p := range set.Pkgs {
				for _, f := range p.Files {
					for _, d := range f.Defs {
						if d.Kind != schema.DefMessage && d.Kind != schema.DefStruct {
							continue
						}
						for i := range d.Fields {
							if _, ok := sibling[d.Fields[i].Type.Name]; ok && d.Fields[i].Type.Pkg == "" {
								sites = append(sites, site{p, &d.Fields[i], d.Name + "." + d.Fields[i].Name})
							}
						}
					}
				}
			}
			if len(sites) == 0 {
				ev.Label(c05, "regenerate-over-old-output:no-site", 1)
				return
			}
			st := sites[rapid.IntRange(0, len(sites)-1).Draw(rt, "editsite")]
			from := st.f.Type.Name
			st.f.Type.Name = sibling[from]
			if err := ws.RewriteSources(st.p, schema.Style{S: s}); err != nil {
				ev.InfraSkip(rt, c05, "%v", err)
			}
			kase2 := c05case{Sources: setSources(set)}
			if r := ws.Generate(st.p.ID, ""); r.Exit != 0 {
				ev.Label(c05, "regenerate-over-old-output:edited-schema-rejected", 1)
				return
			}
			inPlace, err := readGenerated(filepath.Join(ws.Dir, st.p.ID))
			if err != nil {
				ev.InfraSkip(rt, c05, "%v", err)
			}
			dst := filepath.Join(ws.Dir, "fresh_"+st.p.ID)
			os.MkdirAll(dst, 0o755)
			if r := ws.Generate(st.p.ID, dst); r.Exit != 0 {
				kase2.Output = clipOut(r.Out)
				ev.Violation(rt, c05, "regeneration-failed", kase2, "generation of the edited %s into an empty directory failed although generation in place succeeded", st.p.ID)
			}
			fresh, err := readGenerated(dst)
			if err != nil {
				ev.InfraSkip(rt, c05, "%v", err)
			}
			for name, content := range fresh {
				if inPlace[name] != content {
					ev.Violation(rt, c05, "regeneration-over-old-output-differs", kase2, "after changing %s from %s to %s, generating over the previous output leaves a %s that differs from generating the same sources into an empty directory (stale output kept?)", st.name, from, sibling[from], name)
				}
			}
			ev.Label(c05, "regenerate-over-old-output:checked", 1)
		}()
	})
}
