#!/bin/bash
# usage: tools/mutant.sh <name> <patch-or-sed-script-file> <PROP> [tier]
# Creates a scratch worktree of /repo under /tmp/verif-mut/<name>, applies the patch
# (git apply) and runs the named check against it with a wall-clock limit.
set -u
name=$1; patch=$2; prop=$3; tier=${4:-quick}
dir=/tmp/verif-mut/$name
rm -rf "$dir"; git -C /repo worktree prune
git -C /repo worktree add --detach -q "$dir" HEAD || exit 3
if ! git -C "$dir" apply "$patch" 2>/dev/null && ! git -C "$dir" apply -C1 "$patch"; then echo "PATCH DOES NOT APPLY"; git -C /repo worktree remove --force "$dir"; exit 3; fi
(cd "$dir" && GOFLAGS=-mod=mod GOPROXY=off go build ./... >/dev/null 2>&1)
VERIF_REPO_DIR=$dir VERIF_HANG_S=${VERIF_HANG_S:-15} timeout ${MUT_TIMEOUT:-900} /verif/check "$prop" "$tier" > /tmp/verif-mut/$name.out 2>&1
rc=$?
grep -E "^VIOLATION|violation \[|INCONCLUSIVE|evaluations=" /tmp/verif-mut/$name.out | cut -c1-400 | head -8
echo "mutant $name vs $prop: rc=$rc"
git -C /repo worktree remove --force "$dir"
h=$(printf %s "$dir" | sha1sum | cut -c1-8)
rm -rf /verif/.work/alt-$h /verif/.work/run-$h
exit $rc
