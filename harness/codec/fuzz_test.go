package codec

import (
	"testing"

	"verifharness/gen"
	"verifharness/refcodec"
)

type fuzzTB struct {
	*testing.T
}

func seedCorpus(f *testing.F, two bool) {
	s := &gen.PRNG{S: 99}
	for i := 0; i < 40; i++ {
		n, _ := gen.Tree(s, gen.Limits{MaxDepth: 3, MaxNodes: 12})
		b := refcodec.Encode(nil, n)
		if two {
			f.Add([]byte{0xfd}, b)
		} else {
			f.Add(b)
		}
	}
	for _, h := range [][]byte{{200, 90}, {0, 60}, {60}, {1, 1, 0, 2, 0, 1, 2, 4, 70}, {0xfd, 11}, {0xff, 0xff, 0xff, 0xff, 0xfe, 50}, {0, 0, 80}, {0, 6, 81}, {3, 0xfe, 71}} {
		if two {
			f.Add([]byte{1, 2}, h)
		} else {
			f.Add(h)
		}
	}
}

// FuzzRead is the coverage-guided counterpart of TestC02_*: every read entry point on
// arbitrary bytes at both guard-page placements.
func FuzzRead(f *testing.F) {
	seedCorpus(f, false)
	f.Fuzz(func(t *testing.T, data []byte) {
		if len(data) > 1<<16 {
			return
		}
		hostile(t, c02, data, "native fuzzing")
	})
}

// FuzzAgree is the coverage-guided counterpart of TestC13_*.
func FuzzAgree(f *testing.F) {
	seedCorpus(f, true)
	f.Fuzz(func(t *testing.T, prefix, data []byte) {
		if len(data) > 1<<14 || len(prefix) > 64 {
			return
		}
		agree(t, data, prefix, "native fuzzing")
	})
}
