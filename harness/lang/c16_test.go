package lang

// C16 (generated-code layer) — messages stay readable across schema evolution.

import (
	"fmt"
	"os"
	"path/filepath"
	"regexp"
	"strconv"
	"strings"
	"testing"
	"time"

	"pgregory.net/rapid"

	"verifharness/ev"
	"verifharness/gen"
	"verifharness/schema"
)

const c16 = "C16"

var c16viol = regexp.MustCompile(`VERIF-C16-VIOLATION (key=(\S+) msg=[^\n]*)`)
var c16stats = regexp.MustCompile(`VERIF-C16-STATS evaluations=(\d+)`)

type c16case struct {
	VersionA string   `json:"schema_version_A"`
	VersionB string   `json:"schema_version_B"`
	Edits    []string `json:"edits"`
	Output   string   `json:"output,omitempty"`
}

func emitCross(va, vb *schema.Set) string {
	var t strings.Builder
	t.WriteString("// Code emitted by the verification harness. DO NOT EDIT.\n\npackage vx\n\nimport (\n\t\"fmt\"\n\t\"testing\"\n\n\t\"pgregory.net/rapid\"\n\t\"verifharness/gen\"\n\t\"verifharness/ltest\"\n\tva \"vmod/va\"\n\tvb \"vmod/vb\"\n)\n\n")
	t.WriteString("func TestVerifC16(t *testing.T) {\n\tevals := 0\n\trapid.Check(t, func(rt *rapid.T) {\n\t\ts := gen.RapidSrc{T: rt}\n")
	inB := map[string]bool{}
	for _, f := range vb.Pkgs[0].Files {
		for _, d := range f.Defs {
			if d.Kind == schema.DefMessage {
				inB[d.Name] = true
			}
		}
	}
	for _, f := range va.Pkgs[0].Files {
		for _, d := range f.Defs {
			if d.Kind != schema.DefMessage || !inB[d.Name] {
				continue
			}
			n := d.Name
			fmt.Fprintf(&t, `		{
			n := ltest.GenMessage(s, ltest.Registry["va.%[1]s"], 2)
			w := va.New%[1]sWriter()
			if err := va.VerifWrite%[1]s(w, n); err != nil {
				rt.Fatalf("VERIF-C16-VIOLATION key=write-failed msg=%[1]s: %%v", err)
			}
			ma, err := w.Build()
			if err != nil {
				rt.Fatalf("VERIF-C16-VIOLATION key=write-failed msg=%[1]s: %%v", err)
			}
			raw := append([]byte(nil), ma.Unwrap().Raw()...)
			mb, size, err := vb.Parse%[1]s(raw)
			if err != nil || size != len(raw) {
				rt.Fatalf("VERIF-C16-VIOLATION key=new-version-cannot-parse msg=%[1]s written under version A does not parse under version B: %%v (value %%s)", err, n.Render(300))
			}
			got := vb.VerifRead%[1]s(mb)
			want := ltest.Project(n, "vb.%[1]s")
			if !ltest.Eq(got, want) {
				rt.Fatalf("VERIF-C16-VIOLATION key=common-fields-changed msg=%[1]s: written under A as %%s, read under B as %%s, expected %%s", n.Render(400), got.Render(400), want.Render(400))
			}
			if z := vb.VerifAbsentZero%[1]s(mb); z != "" {
				rt.Fatalf("VERIF-C16-VIOLATION key=absent-not-zero msg=%[1]s: field %%s is absent from the data but does not read as zero under B (value %%s)", z, n.Render(300))
			}
			pre := ltest.GenMessage(s, ltest.Registry["vb.%[1]s"], 1)
			if rapid.IntRange(0, 2).Draw(rt, "fewprewritten") != 0 && len(pre.Fields) > 1 {
				pre.Fields = pre.Fields[:1]
			}
			wb := vb.New%[1]sWriter()
			if err := vb.VerifWrite%[1]s(wb, pre); err != nil {
				rt.Fatalf("VERIF-C16-VIOLATION key=write-failed msg=%[1]s (B): %%v", err)
			}
			if err := wb.Merge(mb); err != nil {
				rt.Fatalf("VERIF-C16-VIOLATION key=merge-failed msg=%[1]s: %%v", err)
			}
			out, err := wb.Build()
			if err != nil {
				rt.Fatalf("VERIF-C16-VIOLATION key=merge-failed msg=%[1]s: %%v", err)
			}
			back := va.VerifRead%[1]s(va.Open%[1]s(append([]byte(nil), out.Unwrap().Raw()...)))
			expect := ltest.Overlay(n, ltest.Project(pre, "va.%[1]s"))
			if !ltest.Eq(back, expect) {
				rt.Fatalf("VERIF-C16-VIOLATION key=merge-lost-or-changed-fields msg=%[1]s: A value %%s merged through a B writer that pre-wrote %%s reads back under A as %%s, expected %%s", n.Render(300), pre.Render(300), back.Render(300), expect.Render(300))
			}
			evals++
		}
`, n)
		}
	}
	t.WriteString("\t})\n\tfmt.Printf(\"VERIF-C16-STATS evaluations=%d\\n\", evals)\n}\n")
	return t.String()
}

func TestC16_GeneratedVersions(t *testing.T) {
	ev.Rule(c16, "generated-code layer: a single-package schema A from the semantic generator and a version B derived by a drawn edit sequence on its messages {add field with a fresh tag, remove, rename, reorder declarations} are both compiled by the real generator into packages va and vb of one module; an emitted driver writes random A values with va's writer and reads them with vb's reader: common fields equal (recursively projected), unknown fields ignored, B-only fields absent and reading as zero; then merges the A message through a vb writer that pre-wrote some B fields and reads the result under A: pre-written fields win, every other A field including those unknown to B is preserved; non-trivial = edit sequence has >=1 add and >=1 remove")
	den := int64(800) // quick: 5000/800 = 6 schema pairs per shard
	if ev.Thorough() {
		den = 3000 // thorough: 60000/3000 = 20 per shard x 16 shards (each pair costs two compiler runs, a go build and a link)
	}
	ev.CheckScaled(t, c16, 1, den, func(rt *rapid.T) {
		s := gen.RapidSrc{T: rt}
		base, _ := schema.GenSetN(s, "vmod", 1)
		va, vb, edits, counts := schema.Evolve(s, base, "va", "vb")
		ws, err := NewWorkspace("vmod")
		if err != nil {
			ev.InfraSkip(rt, c16, "%v", err)
		}
		defer ws.Remove()
		kase := c16case{VersionA: setSources(va), VersionB: setSources(vb), Edits: edits}
		for _, set := range []*schema.Set{va, vb} {
			key, msg, out := buildAndEmit(ws, set, schema.Style{})
			if key == "infra" {
				ev.InfraSkip(rt, c16, "%s", msg)
			}
			if key != "" {
				kase.Output = clipOut(out)
				ev.Violation(rt, c16, "gen:"+key, kase, "%s", msg)
			}
			// the C05 driver is not needed here
			os.Remove(filepath.Join(ws.Dir, set.Pkgs[0].ID, "zz_verif_test.go"))
		}
		os.MkdirAll(filepath.Join(ws.Dir, "vx"), 0o755)
		if err := os.WriteFile(filepath.Join(ws.Dir, "vx", "cross_test.go"), []byte(emitCross(va, vb)), 0o644); err != nil {
			ev.InfraSkip(rt, c16, "%v", err)
		}
		seed := rapid.IntRange(1, 1<<30).Draw(rt, "driverseed")
		o, ok, timedOut := ws.GoTest(10*time.Minute, []string{"-v", "-run", "TestVerifC16", "-rapid.checks=80", "-rapid.seed=" + strconv.Itoa(seed), "-rapid.nofailfile"}, "vx")
		if timedOut {
			ev.InfraSkip(rt, c16, "cross-version driver did not finish")
		}
		if m := c16viol.FindStringSubmatch(o); m != nil {
			kase.Output = clipOut(m[1])
			ev.Violation(rt, c16, "generated:"+m[2], kase, "%s", m[1])
		}
		if !ok {
			kase.Output = clipOut(o)
			ev.Violation(rt, c16, "generated:driver-failed", kase, "cross-version driver failed to build or run")
		}
		var evals int64
		if m := c16stats.FindStringSubmatch(o); m != nil {
			evals, _ = strconv.ParseInt(m[1], 10, 64)
		}
		ev.Label(c16, "generated:value-checks", evals)
		nt := counts["add"] > 0 && counts["remove"] > 0
		ev.Case(c16, ev.Hash(kase.VersionA, kase.VersionB), nt, fmt.Sprintf("generated:add>0=%v", counts["add"] > 0), fmt.Sprintf("generated:remove>0=%v", counts["remove"] > 0), fmt.Sprintf("generated:rename>0=%v", counts["rename"] > 0))
		if ev.WantSample(c16) {
			ev.Sample(c16, c16case{VersionA: kase.VersionA, Edits: edits})
		}
	})
}
