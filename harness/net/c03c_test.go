package net

// C03, directed back-pressure scenario: a window update that becomes due while the receiver's
// connection write queue is stuck, followed by the sender's close.

import (
	"fmt"
	"sync"
	"sync/atomic"
	"testing"
	"time"

	"github.com/basecomplextech/baselibrary/status"
	"github.com/basecomplextech/baselibrary/units"
	"github.com/basecomplextech/spec/mpx"
	"pgregory.net/rapid"

	"verifharness/ev"
	"verifharness/netfx"
)

type c03cCase struct {
	Window      int    `json:"window"`
	WriteQueue  int    `json:"write_queue"`
	Compression bool   `json:"compression"`
	Sizes       []int  `json:"message_sizes"`
	BigAt       int    `json:"index_of_the_message_that_makes_an_update_due"`
	GapMs       int    `json:"ms_between_that_message_and_the_rest"`
	Sched       any    `json:"schedule_perturbation"`
	Received    string `json:"received,omitempty"`
}

func TestC03_UpdateDueWhileQueueStuck(t *testing.T) {
	ev.Rule(c03, "rapid, directed back-pressure scenario: the server->client direction of a proxy is paused and a filler channel keeps the server's write queue stuck; a second channel then carries 1..4 client messages of which one pushes the server's consumed bytes over half the window (as opening payload or later), a drawn gap, the remaining messages and SendAndClose with payload; the server handler reads with the canonical Receive(channel context) until a non-OK status; forwarding resumes; oracle: the handler received exactly the sent sequence, then the end; windows {4 KiB, 8 KiB, 64 KiB}, write queue {16, 100, 4096}, compression on/off; non-trivial = all")
	ev.CheckScaled(t, c03, 1, 20, func(rt *rapid.T) {
		w := []int{4096, 8192, 65536}[rapid.IntRange(0, 2).Draw(rt, "window")]
		kase := &c03cCase{Window: w, WriteQueue: []int{16, 100, 4096}[rapid.IntRange(0, 2).Draw(rt, "writeq")], Compression: rapid.Bool().Draw(rt, "compression")}
		n := rapid.IntRange(1, 4).Draw(rt, "nmsgs")
		kase.BigAt = rapid.IntRange(0, n-1).Draw(rt, "bigat")
		for i := 0; i < n; i++ {
			sz := []int{16, 17, 100, w / 8}[rapid.IntRange(0, 3).Draw(rt, "size")]
			if i == kase.BigAt {
				sz = w/2 + rapid.IntRange(0, 300).Draw(rt, "bigextra")
			}
			if sz < 16 {
				sz = 16
			}
			kase.Sizes = append(kase.Sizes, sz)
		}
		closing := []int{16, 100, w / 4}[rapid.IntRange(0, 2).Draw(rt, "closing")]
		kase.GapMs = rapid.IntRange(1, 25).Draw(rt, "gap")
		sp := drawSched(rt)
		kase.Sched = sp
		defer sp.install()()

		opts := mpx.Default()
		opts.Compression = kase.Compression
		opts.ChannelWindowSize = units.Bytes(w)
		opts.WriteQueueSize = units.Bytes(kase.WriteQueue)
		log := netfx.NewLogger()
		var mu sync.Mutex
		var fillerSends atomic.Int64
		var got [][]byte
		var end string
		done := make(chan struct{})
		handler := mpx.HandleFunc(func(ctx mpx.Context, ch mpx.Channel) status.Status {
			first, st := ch.Receive(ctx)
			if !st.OK() {
				return status.OK
			}
			if len(first) > 0 && first[0] == 'F' {
				// filler: stream one-byte messages until the channel ends; their frames are smaller than a window
				// update frame, so when a filler cannot get into the write queue an update cannot either
				// (the queue's capacity is a soft limit checked against the size of the frame being written)
				chunk := []byte{'f'}
				for {
					if st := ch.Send(ctx, chunk); !st.OK() {
						return status.OK
					}
					fillerSends.Add(1)
				}
			}
			defer close(done)
			msg := first
			for {
				mu.Lock()
				got = append(got, append([]byte(nil), msg...))
				mu.Unlock()
				m, st := ch.Receive(ctx)
				if !st.OK() {
					mu.Lock()
					end = string(st.Code)
					mu.Unlock()
					return status.OK
				}
				msg = m
			}
		})
		srv, err := netfx.StartServer(handler, log, opts)
		if err != nil {
			ev.InfraSkip(rt, c03, "%v", err)
		}
		defer srv.Stop()
		px, err := netfx.NewProxy(srv.Addr)
		if err != nil {
			ev.InfraSkip(rt, c03, "%v", err)
		}
		defer px.Close()
		px.SetSmallBuffers(true)
		conn, st := mpx.Connect(ctxNone(), px.Addr(), log, opts)
		if !st.OK() {
			ev.InfraSkip(rt, c03, "connect: %v", st)
		}
		defer conn.Close()
		// filler channel, then stall the server->client direction for the rest of the case
		// (each filler can have one window outstanding: enough of them for half a megabyte, which exceeds
		// what the kernel buffers of the stalled direction absorb)
		fillers := (512 << 10) / w
		if fillers < 4 {
			fillers = 4
		}
		if fillers > 64 {
			fillers = 64
		}
		for i := 0; i < fillers; i++ {
			fch, st := conn.Channel(ctxNone())
			if !st.OK() {
				ev.InfraSkip(rt, c03, "channel: %v", st)
			}
			defer fch.Free()
			if st := fch.Send(ctxNone(), []byte("Filler")); !st.OK() {
				ev.InfraSkip(rt, c03, "filler send: %v", st)
			}
		}
		px.PauseDir(1, 120*time.Second) // until resumed below
		// the fillers run into the stalled direction: kernel buffers, then the write queue fill up; wait until
		// no filler has got a frame in for 30 ms
		stuck := false
		for dl, last, since := time.Now().Add(5*time.Second), int64(-1), time.Now(); time.Now().Before(dl); {
			if cur := fillerSends.Load(); cur != last {
				last, since = cur, time.Now()
			} else if time.Since(since) > 30*time.Millisecond {
				stuck = true
				break
			}
			time.Sleep(2 * time.Millisecond)
		}
		if !stuck {
			ev.Label(c03, "stuck:write-queue-never-stalled", 1)
		}
		ch, st := conn.Channel(ctxNone())
		if !st.OK() {
			ev.InfraSkip(rt, c03, "channel: %v", st)
		}
		defer ch.Free()
		id := chanSeq.Add(1)
		var sent [][]byte
		payload := func(i, size int) []byte {
			p := netfx.Make(netfx.Header{Chan: id, Seq: uint32(i)}, size)
			sent = append(sent, p)
			return p
		}
		fail := func(key, format string, a ...any) {
			mu.Lock()
			desc := ""
			for _, m := range got {
				desc += " " + netfx.Describe(m)
			}
			kase.Received = desc + " end=" + end
			mu.Unlock()
			ev.Violation(rt, c03, key, kase, format, a...)
		}
		for i, sz := range kase.Sizes {
			if st := ch.Send(async30(), payload(i, sz)); !st.OK() {
				fail("stuck:send-failed", "Send[%d] of %d bytes: %v", i, sz, st)
			}
			if i == kase.BigAt {
				// the handler dequeues it, an update is due, the update waits for space in the stuck write queue
				time.Sleep(time.Duration(kase.GapMs) * time.Millisecond)
			}
		}
		if st := ch.SendAndClose(async30(), payload(len(kase.Sizes), closing)); !st.OK() {
			fail("stuck:send-failed", "SendAndClose: %v", st)
		}
		time.Sleep(time.Duration(kase.GapMs) * time.Millisecond)
		px.PauseDir(1, 0) // resume
		select {
		case <-done:
		case <-time.After(boundArrive()):
			fail("stuck:hang", "the handler did not see the end of the channel within %v after forwarding resumed", boundArrive())
		}
		mu.Lock()
		g, e := got, end
		mu.Unlock()
		if len(g) != len(sent) {
			fail("stuck:delivery", "handler received %d of %d messages before the status %q (a message dequeued while its window update could not be queued must still be delivered)", len(g), len(sent), e)
		}
		for i := range g {
			if string(g[i]) != string(sent[i]) {
				fail("stuck:delivery", "message %d differs: got %s, sent %s", i, netfx.Describe(g[i]), netfx.Describe(sent[i]))
			}
		}
		if p := libraryPanicText(log); p != "" {
			fail("library-panic", "%s", p)
		}
		ev.Case(c03, ev.Hash("stuck", fmt.Sprint(kase.Window, kase.WriteQueue, kase.Compression, kase.Sizes, kase.BigAt, kase.GapMs, closing)), true, "update-due-while-queue-stuck")
	})
}
