package net

import (
	"runtime"
	"unicode"
)

func runtimeGosched() { runtime.Gosched() }

func unicodeTables() []*unicode.RangeTable {
	return []*unicode.RangeTable{unicode.Latin, unicode.Cyrillic, unicode.Han, unicode.Digit, unicode.Space, unicode.Sm}
}
