// Package refcodec is an independent implementation of the pinned wire format
// (DESIGN.md appendix A). It deliberately imports nothing from the library under
// test or from its support library.
package refcodec

import (
	"errors"
	"fmt"
	"sort"

	"verifharness/gen"
)

// Type codes as pinned at commit 554461f.
const (
	TTrue       = 1
	TFalse      = 2
	TByte       = 3
	TInt16      = 10
	TInt32      = 11
	TInt64      = 12
	TUint16     = 20
	TUint32     = 21
	TUint64     = 22
	TBin64      = 30
	TBin128     = 31
	TBin256     = 32
	TFloat32    = 40
	TFloat64    = 41
	TBytes      = 50
	TString     = 60
	TList       = 70
	TBigList    = 71
	TMessage    = 80
	TBigMessage = 81
	TStruct     = 90
)

// TypeCodes lists all valid type bytes.
var TypeCodes = []byte{1, 2, 3, 10, 11, 12, 20, 21, 22, 30, 31, 32, 40, 41, 50, 60, 70, 71, 80, 81, 90}

const maxSize = 1<<31 - 1

// ---- encoder ----

func putVarint(out []byte, v uint64) []byte {
	switch {
	case v <= 0xfc:
		return append(out, byte(v))
	case v <= 0xffff:
		return append(out, byte(v>>8), byte(v), 0xfd)
	case v <= 0xffffffff:
		return append(out, byte(v>>24), byte(v>>16), byte(v>>8), byte(v), 0xfe)
	default:
		return append(out, byte(v>>56), byte(v>>48), byte(v>>40), byte(v>>32), byte(v>>24), byte(v>>16), byte(v>>8), byte(v), 0xff)
	}
}

// VarintLen returns the encoded length of v.
func VarintLen(v uint64) int {
	switch {
	case v <= 0xfc:
		return 1
	case v <= 0xffff:
		return 3
	case v <= 0xffffffff:
		return 5
	}
	return 9
}

func zigzag(x int64) uint64 { return uint64(x<<1) ^ uint64(x>>63) }

func unzigzag(u uint64) int64 { return int64(u>>1) ^ -int64(u&1) }

// Encode appends the encoding of n to out. Message fields are laid out in n.Fields
// order (write order); tables are sorted by tag.
func Encode(out []byte, n *gen.Node) []byte {
	switch n.Kind {
	case gen.KBool:
		if n.I != 0 {
			return append(out, TTrue)
		}
		return append(out, TFalse)
	case gen.KByte:
		return append(out, byte(n.I), TByte)
	case gen.KInt16:
		return append(putVarint(out, zigzag(n.I)&0xffffffff), TInt16)
	case gen.KInt32:
		return append(putVarint(out, zigzag(n.I)&0xffffffff), TInt32)
	case gen.KInt64:
		return append(putVarint(out, zigzag(n.I)), TInt64)
	case gen.KUint16:
		return append(putVarint(out, n.U), TUint16)
	case gen.KUint32:
		return append(putVarint(out, n.U), TUint32)
	case gen.KUint64:
		return append(putVarint(out, n.U), TUint64)
	case gen.KFloat32:
		u := uint32(n.U)
		return append(out, byte(u>>24), byte(u>>16), byte(u>>8), byte(u), TFloat32)
	case gen.KFloat64:
		u := n.U
		return append(out, byte(u>>56), byte(u>>48), byte(u>>40), byte(u>>32), byte(u>>24), byte(u>>16), byte(u>>8), byte(u), TFloat64)
	case gen.KBin64:
		return append(append(out, n.B[:8]...), TBin64)
	case gen.KBin128:
		return append(append(out, n.B[:16]...), TBin128)
	case gen.KBin256:
		return append(append(out, n.B[:32]...), TBin256)
	case gen.KBytes:
		out = append(out, n.B...)
		return append(putVarint(out, uint64(len(n.B))), TBytes)
	case gen.KString:
		out = append(out, n.B...)
		out = append(out, 0)
		return append(putVarint(out, uint64(len(n.B))), TString)
	case gen.KStruct:
		start := len(out)
		for _, e := range n.Elems {
			out = Encode(out, e)
		}
		return append(putVarint(out, uint64(len(out)-start)), TStruct)
	case gen.KList:
		start := len(out)
		ends := make([]uint32, len(n.Elems))
		for i, e := range n.Elems {
			out = Encode(out, e)
			ends[i] = uint32(len(out) - start)
		}
		dataSize := len(out) - start
		big := len(ends) > 255 || (len(ends) > 0 && ends[len(ends)-1] > 0xffff)
		tstart := len(out)
		for _, e := range ends {
			if big {
				out = append(out, byte(e>>24), byte(e>>16), byte(e>>8), byte(e))
			} else {
				out = append(out, byte(e>>8), byte(e))
			}
		}
		tableSize := len(out) - tstart
		out = putVarint(out, uint64(dataSize))
		out = putVarint(out, uint64(tableSize))
		if big {
			return append(out, TBigList)
		}
		return append(out, TList)
	case gen.KMessage:
		start := len(out)
		type ent struct {
			tag uint16
			end uint32
		}
		ents := make([]ent, len(n.Fields))
		big := false
		for i, f := range n.Fields {
			out = Encode(out, f.V)
			ents[i] = ent{f.Tag, uint32(len(out) - start)}
			if f.Tag > 255 || ents[i].end > 0xffff {
				big = true
			}
		}
		dataSize := len(out) - start
		sort.SliceStable(ents, func(i, j int) bool { return ents[i].tag < ents[j].tag })
		tstart := len(out)
		for _, e := range ents {
			if big {
				out = append(out, byte(e.tag>>8), byte(e.tag), byte(e.end>>24), byte(e.end>>16), byte(e.end>>8), byte(e.end))
			} else {
				out = append(out, byte(e.tag), byte(e.end>>8), byte(e.end))
			}
		}
		tableSize := len(out) - tstart
		out = putVarint(out, uint64(dataSize))
		out = putVarint(out, uint64(tableSize))
		if big {
			return append(out, TBigMessage)
		}
		return append(out, TMessage)
	}
	panic(fmt.Sprintf("refcodec: bad kind %v", n.Kind))
}

// Size returns len(Encode(nil, n)) without materialising it.
func Size(n *gen.Node) int {
	switch n.Kind {
	case gen.KBool:
		return 1
	case gen.KByte:
		return 2
	case gen.KInt16, gen.KInt32:
		return VarintLen(zigzag(n.I)&0xffffffff) + 1
	case gen.KInt64:
		return VarintLen(zigzag(n.I)) + 1
	case gen.KUint16, gen.KUint32, gen.KUint64:
		return VarintLen(n.U) + 1
	case gen.KFloat32:
		return 5
	case gen.KFloat64, gen.KBin64:
		return 9
	case gen.KBin128:
		return 17
	case gen.KBin256:
		return 33
	case gen.KBytes:
		return len(n.B) + VarintLen(uint64(len(n.B))) + 1
	case gen.KString:
		return len(n.B) + 1 + VarintLen(uint64(len(n.B))) + 1
	case gen.KStruct:
		d := 0
		for _, e := range n.Elems {
			d += Size(e)
		}
		return d + VarintLen(uint64(d)) + 1
	case gen.KList:
		d := 0
		for _, e := range n.Elems {
			d += Size(e)
		}
		es := 2
		if len(n.Elems) > 255 || d > 0xffff {
			es = 4
		}
		if len(n.Elems) == 0 {
			es = 2
		}
		t := es * len(n.Elems)
		return d + t + VarintLen(uint64(d)) + VarintLen(uint64(t)) + 1
	case gen.KMessage:
		d := 0
		big := false
		for _, f := range n.Fields {
			d += Size(f.V)
			if f.Tag > 255 || d > 0xffff {
				big = true
			}
		}
		fs := 3
		if big {
			fs = 6
		}
		t := fs * len(n.Fields)
		return d + t + VarintLen(uint64(d)) + VarintLen(uint64(t)) + 1
	}
	panic("refcodec: bad kind")
}

// ---- strict decoder ----

var ErrInvalid = errors.New("refcodec: invalid encoding")

func errf(format string, a ...any) error {
	return fmt.Errorf("refcodec: "+format, a...)
}

// readVarint reads a reverse compact varint ending at b's end. max64 permits the 0xff class.
func readVarint(b []byte, max64 bool) (v uint64, n int, err error) {
	if len(b) == 0 {
		return 0, 0, errf("varint: empty")
	}
	m := b[len(b)-1]
	switch m {
	default:
		return uint64(m), 1, nil
	case 0xfd:
		if len(b) < 3 {
			return 0, 0, errf("varint: truncated 16")
		}
		p := b[len(b)-3:]
		return uint64(p[0])<<8 | uint64(p[1]), 3, nil
	case 0xfe:
		if len(b) < 5 {
			return 0, 0, errf("varint: truncated 32")
		}
		p := b[len(b)-5:]
		return uint64(p[0])<<24 | uint64(p[1])<<16 | uint64(p[2])<<8 | uint64(p[3]), 5, nil
	case 0xff:
		if !max64 {
			return 0, 0, errf("varint: 64-bit class not allowed here")
		}
		if len(b) < 9 {
			return 0, 0, errf("varint: truncated 64")
		}
		p := b[len(b)-9:]
		for i := 0; i < 8; i++ {
			v = v<<8 | uint64(p[i])
		}
		return v, 9, nil
	}
}

// Options of the strict decoder.
type Options struct {
	// Canonical additionally requires shortest varints, the compact table form
	// whenever allowed, sorted distinct tags and contiguous field/element layout.
	Canonical bool
	// StructMembers tells how to split a struct body: if nil the body must be a
	// concatenation of self-delimiting scalar values (what the harness generates).
	MaxDepth int
	// IgnoreNUL accepts strings whose terminator byte is not zero (the library does not
	// check the terminator when reading).
	IgnoreNUL bool
}

// Decode decodes the value that ends at the end of b (which must be exactly the
// value: no prefix). Message fields are returned in layout (= write) order.
func Decode(b []byte, opt Options) (*gen.Node, error) {
	n, size, err := decodeSuffix(b, opt, 0)
	if err != nil {
		return nil, err
	}
	if size != len(b) {
		return nil, errf("value of %d bytes inside %d-byte input", size, len(b))
	}
	return n, nil
}

// DecodeSuffix decodes the value that ends at the end of b and returns its size.
func DecodeSuffix(b []byte, opt Options) (*gen.Node, int, error) {
	return decodeSuffix(b, opt, 0)
}

func decodeSuffix(b []byte, opt Options, depth int) (*gen.Node, int, error) {
	if opt.MaxDepth > 0 && depth > opt.MaxDepth {
		return nil, 0, errf("too deep")
	}
	if len(b) == 0 {
		return nil, 0, errf("empty value")
	}
	t := b[len(b)-1]
	body := b[:len(b)-1]
	canon := func(v uint64, n int) error {
		if opt.Canonical && n != VarintLen(v) {
			return errf("non-shortest varint")
		}
		return nil
	}
	switch t {
	case TTrue:
		return gen.Bool(true), 1, nil
	case TFalse:
		return gen.Bool(false), 1, nil
	case TByte:
		if len(body) < 1 {
			return nil, 0, errf("byte: truncated")
		}
		return gen.Byte(body[len(body)-1]), 2, nil
	case TInt16, TInt32:
		u, n, err := readVarint(body, false)
		if err != nil {
			return nil, 0, err
		}
		if err := canon(u, n); err != nil {
			return nil, 0, err
		}
		x := unzigzag(u)
		if t == TInt16 {
			if x < -32768 || x > 32767 {
				return nil, 0, errf("int16 out of range")
			}
			return gen.Int16(int16(x)), n + 1, nil
		}
		return gen.Int32(int32(x)), n + 1, nil
	case TInt64:
		u, n, err := readVarint(body, true)
		if err != nil {
			return nil, 0, err
		}
		if err := canon(u, n); err != nil {
			return nil, 0, err
		}
		return gen.Int64(unzigzag(u)), n + 1, nil
	case TUint16, TUint32:
		u, n, err := readVarint(body, false)
		if err != nil {
			return nil, 0, err
		}
		if err := canon(u, n); err != nil {
			return nil, 0, err
		}
		if t == TUint16 {
			if u > 0xffff {
				return nil, 0, errf("uint16 out of range")
			}
			return gen.Uint16(uint16(u)), n + 1, nil
		}
		return gen.Uint32(uint32(u)), n + 1, nil
	case TUint64:
		u, n, err := readVarint(body, true)
		if err != nil {
			return nil, 0, err
		}
		if err := canon(u, n); err != nil {
			return nil, 0, err
		}
		return gen.Uint64(u), n + 1, nil
	case TFloat32:
		if len(body) < 4 {
			return nil, 0, errf("float32: truncated")
		}
		p := body[len(body)-4:]
		return &gen.Node{Kind: gen.KFloat32, U: uint64(p[0])<<24 | uint64(p[1])<<16 | uint64(p[2])<<8 | uint64(p[3])}, 5, nil
	case TFloat64:
		if len(body) < 8 {
			return nil, 0, errf("float64: truncated")
		}
		p := body[len(body)-8:]
		var u uint64
		for i := 0; i < 8; i++ {
			u = u<<8 | uint64(p[i])
		}
		return &gen.Node{Kind: gen.KFloat64, U: u}, 9, nil
	case TBin64, TBin128, TBin256:
		w := map[byte]int{TBin64: 8, TBin128: 16, TBin256: 32}[t]
		k := map[byte]gen.Kind{TBin64: gen.KBin64, TBin128: gen.KBin128, TBin256: gen.KBin256}[t]
		if len(body) < w {
			return nil, 0, errf("bin: truncated")
		}
		return &gen.Node{Kind: k, B: append([]byte(nil), body[len(body)-w:]...)}, w + 1, nil
	case TBytes:
		sz, n, err := readVarint(body, false)
		if err != nil {
			return nil, 0, err
		}
		if err := canon(sz, n); err != nil {
			return nil, 0, err
		}
		rest := body[:len(body)-n]
		if sz > maxSize || uint64(len(rest)) < sz {
			return nil, 0, errf("bytes: size %d beyond input", sz)
		}
		return gen.Bytes(append([]byte{}, rest[len(rest)-int(sz):]...)), 1 + n + int(sz), nil
	case TString:
		sz, n, err := readVarint(body, false)
		if err != nil {
			return nil, 0, err
		}
		if err := canon(sz, n); err != nil {
			return nil, 0, err
		}
		rest := body[:len(body)-n]
		if sz > maxSize || uint64(len(rest)) < sz+1 {
			return nil, 0, errf("string: size %d beyond input", sz)
		}
		if rest[len(rest)-1] != 0 && !opt.IgnoreNUL {
			return nil, 0, errf("string: missing NUL terminator")
		}
		rest = rest[:len(rest)-1]
		return &gen.Node{Kind: gen.KString, B: append([]byte{}, rest[len(rest)-int(sz):]...)}, 1 + n + 1 + int(sz), nil
	case TStruct:
		sz, n, err := readVarint(body, false)
		if err != nil {
			return nil, 0, err
		}
		if err := canon(sz, n); err != nil {
			return nil, 0, err
		}
		rest := body[:len(body)-n]
		if sz > maxSize || uint64(len(rest)) < sz {
			return nil, 0, errf("struct: size %d beyond input", sz)
		}
		data := rest[len(rest)-int(sz):]
		// members: self-delimiting values, parsed from the end
		var rev []*gen.Node
		for len(data) > 0 {
			m, ms, err := decodeSuffix(data, opt, depth+1)
			if err != nil {
				return nil, 0, errf("struct member: %v", err)
			}
			rev = append(rev, m)
			data = data[:len(data)-ms]
		}
		out := &gen.Node{Kind: gen.KStruct}
		for i := len(rev) - 1; i >= 0; i-- {
			out.Elems = append(out.Elems, rev[i])
		}
		return out, 1 + n + int(sz), nil
	case TList, TBigList:
		big := t == TBigList
		tsz, n1, err := readVarint(body, false)
		if err != nil {
			return nil, 0, err
		}
		if err := canon(tsz, n1); err != nil {
			return nil, 0, err
		}
		rest := body[:len(body)-n1]
		dsz, n2, err := readVarint(rest, false)
		if err != nil {
			return nil, 0, err
		}
		if err := canon(dsz, n2); err != nil {
			return nil, 0, err
		}
		rest = rest[:len(rest)-n2]
		if tsz > maxSize || dsz > maxSize || uint64(len(rest)) < tsz+dsz {
			return nil, 0, errf("list: sizes beyond input")
		}
		es := 2
		if big {
			es = 4
		}
		if tsz%uint64(es) != 0 {
			return nil, 0, errf("list: table size not a multiple of the entry size")
		}
		table := rest[len(rest)-int(tsz):]
		data := rest[len(rest)-int(tsz)-int(dsz) : len(rest)-int(tsz)]
		cnt := int(tsz) / es
		out := &gen.Node{Kind: gen.KList}
		prev := 0
		for i := 0; i < cnt; i++ {
			var end int
			if big {
				p := table[i*4:]
				end = int(uint32(p[0])<<24 | uint32(p[1])<<16 | uint32(p[2])<<8 | uint32(p[3]))
			} else {
				p := table[i*2:]
				end = int(p[0])<<8 | int(p[1])
			}
			if end <= prev || end > len(data) {
				return nil, 0, errf("list: element %d offsets [%d,%d) invalid for data size %d", i, prev, end, len(data))
			}
			e, sz, err := decodeSuffix(data[prev:end], opt, depth+1)
			if err != nil {
				return nil, 0, errf("list element %d: %v", i, err)
			}
			if sz != end-prev {
				return nil, 0, errf("list: element %d has %d bytes in a %d-byte slot", i, sz, end-prev)
			}
			out.Elems = append(out.Elems, e)
			prev = end
		}
		if prev != len(data) {
			return nil, 0, errf("list: %d trailing data bytes", len(data)-prev)
		}
		if opt.Canonical {
			wantBig := cnt > 255 || len(data) > 0xffff
			if wantBig != big {
				return nil, 0, errf("list: table form big=%v but count=%d data=%d", big, cnt, len(data))
			}
		}
		return out, 1 + n1 + n2 + int(tsz) + int(dsz), nil
	case TMessage, TBigMessage:
		big := t == TBigMessage
		tsz, n1, err := readVarint(body, false)
		if err != nil {
			return nil, 0, err
		}
		if err := canon(tsz, n1); err != nil {
			return nil, 0, err
		}
		rest := body[:len(body)-n1]
		dsz, n2, err := readVarint(rest, false)
		if err != nil {
			return nil, 0, err
		}
		if err := canon(dsz, n2); err != nil {
			return nil, 0, err
		}
		rest = rest[:len(rest)-n2]
		if tsz > maxSize || dsz > maxSize || uint64(len(rest)) < tsz+dsz {
			return nil, 0, errf("message: sizes beyond input")
		}
		fs := 3
		if big {
			fs = 6
		}
		if tsz%uint64(fs) != 0 {
			return nil, 0, errf("message: table size not a multiple of the entry size")
		}
		table := rest[len(rest)-int(tsz):]
		data := rest[len(rest)-int(tsz)-int(dsz) : len(rest)-int(tsz)]
		cnt := int(tsz) / fs
		type ent struct {
			tag uint16
			end int
		}
		ents := make([]ent, cnt)
		needBig := false
		for i := 0; i < cnt; i++ {
			if big {
				p := table[i*6:]
				ents[i] = ent{uint16(p[0])<<8 | uint16(p[1]), int(uint32(p[2])<<24 | uint32(p[3])<<16 | uint32(p[4])<<8 | uint32(p[5]))}
			} else {
				p := table[i*3:]
				ents[i] = ent{uint16(p[0]), int(p[1])<<8 | int(p[2])}
			}
			if i > 0 && ents[i].tag <= ents[i-1].tag {
				return nil, 0, errf("message: tags not strictly ascending at entry %d", i)
			}
			if ents[i].end > len(data) || ents[i].end <= 0 {
				return nil, 0, errf("message: field %d end %d beyond data size %d", ents[i].tag, ents[i].end, len(data))
			}
			if ents[i].tag > 255 || ents[i].end > 0xffff {
				needBig = true
			}
		}
		if opt.Canonical && needBig != big {
			return nil, 0, errf("message: table form big=%v but needBig=%v", big, needBig)
		}
		// layout order = ascending end offset
		lay := append([]ent(nil), ents...)
		sort.Slice(lay, func(i, j int) bool { return lay[i].end < lay[j].end })
		out := &gen.Node{Kind: gen.KMessage}
		prev := 0
		for i, e := range lay {
			if i > 0 && e.end == lay[i-1].end {
				return nil, 0, errf("message: two fields end at %d", e.end)
			}
			v, sz, err := decodeSuffix(data[prev:e.end], opt, depth+1)
			if err != nil {
				return nil, 0, errf("message field %d: %v", e.tag, err)
			}
			if sz != e.end-prev {
				return nil, 0, errf("message: field %d has %d bytes in a %d-byte slot", e.tag, sz, e.end-prev)
			}
			out.Fields = append(out.Fields, gen.Field{Tag: e.tag, V: v})
			prev = e.end
		}
		if prev != len(data) {
			return nil, 0, errf("message: %d trailing data bytes", len(data)-prev)
		}
		return out, 1 + n1 + n2 + int(tsz) + int(dsz), nil
	}
	return nil, 0, errf("unknown type code %d", t)
}

// Marks returns the offsets (into b, which must be Encode(nil, n)) of all structural
// bytes: type bytes, varints (sizes and integer bodies), NUL terminators and table
// entries. Payload bytes of bytes/string/bin/float values are not structural.
func Marks(b []byte, n *gen.Node) []int {
	var out []int
	marks(b, 0, len(b), n, &out)
	return out
}

func marks(b []byte, lo, hi int, n *gen.Node, out *[]int) {
	add := func(from, to int) {
		for i := from; i < to; i++ {
			*out = append(*out, i)
		}
	}
	vl := func(end int) int { // length of the varint ending at b[end-1]
		switch b[end-1] {
		case 0xfd:
			return 3
		case 0xfe:
			return 5
		case 0xff:
			return 9
		}
		return 1
	}
	switch n.Kind {
	case gen.KBool, gen.KByte, gen.KFloat32, gen.KFloat64, gen.KBin64, gen.KBin128, gen.KBin256:
		add(hi-1, hi)
	case gen.KInt16, gen.KInt32, gen.KInt64, gen.KUint16, gen.KUint32, gen.KUint64:
		add(lo, hi)
	case gen.KBytes:
		add(hi-1-vl(hi-1), hi)
	case gen.KString:
		add(hi-1-vl(hi-1)-1, hi)
	case gen.KStruct:
		v := vl(hi - 1)
		add(hi-1-v, hi)
		end := hi - 1 - v
		for i := len(n.Elems) - 1; i >= 0; i-- {
			sz := Size(n.Elems[i])
			marks(b, end-sz, end, n.Elems[i], out)
			end -= sz
		}
	case gen.KList:
		v1 := vl(hi - 1)
		v2 := vl(hi - 1 - v1)
		tend := hi - 1 - v1 - v2
		d := 0
		for _, e := range n.Elems {
			d += Size(e)
		}
		tstart := lo + d
		add(tstart, hi)
		_ = tend
		p := lo
		for _, e := range n.Elems {
			sz := Size(e)
			marks(b, p, p+sz, e, out)
			p += sz
		}
	case gen.KMessage:
		d := 0
		for _, f := range n.Fields {
			d += Size(f.V)
		}
		add(lo+d, hi)
		p := lo
		for _, f := range n.Fields {
			sz := Size(f.V)
			marks(b, p, p+sz, f.V, out)
			p += sz
		}
	}
}

// RawContainer assembles a list/message with arbitrary (possibly lying) trailer fields.
// data and table are copied verbatim; dataSize/tableSize are the declared sizes.
func RawContainer(typ byte, data, table []byte, dataSize, tableSize uint64) []byte {
	out := append([]byte(nil), data...)
	out = append(out, table...)
	out = putVarint(out, dataSize)
	out = putVarint(out, tableSize)
	return append(out, typ)
}
