package gen

import (
	"pgregory.net/rapid"
)

// Src is the source of generator decisions: rapid draws inside properties (so that
// shrinking and replay work), a splitmix PRNG for deterministic sweeps and corpora.
type Src interface {
	// Intn returns a value in [0,n).
	Intn(n int, label string) int
	Uint64(label string) uint64
	Bytes(n int, label string) []byte
}

type RapidSrc struct{ T *rapid.T }

func (r RapidSrc) Intn(n int, label string) int {
	if n <= 1 {
		return 0
	}
	return rapid.IntRange(0, n-1).Draw(r.T, label)
}
func (r RapidSrc) Uint64(label string) uint64 { return rapid.Uint64().Draw(r.T, label) }
func (r RapidSrc) Bytes(n int, label string) []byte {
	if n == 0 {
		return []byte{}
	}
	if n > 64 {
		// large payloads: draw a short seed and expand deterministically (keeps rapid's
		// bitstream small; content still depends only on drawn values)
		seed := rapid.Uint64().Draw(r.T, label+"/seed")
		mode := rapid.IntRange(0, 3).Draw(r.T, label+"/mode")
		return Expand(seed, mode, n)
	}
	return rapid.SliceOfN(rapid.Byte(), n, n).Draw(r.T, label)
}

// Expand produces n bytes from a seed; mode selects content class.
func Expand(seed uint64, mode, n int) []byte {
	out := make([]byte, n)
	s := seed
	for i := range out {
		switch mode {
		case 0:
			out[i] = 0
		case 1:
			out[i] = byte(seed)
		case 2:
			// wire-format lookalikes
			tab := []byte{0xfd, 0xfe, 0xff, 0, 1, 2, 3, 50, 60, 70, 71, 80, 81, 90}
			s = s*6364136223846793005 + 1442695040888963407
			out[i] = tab[(s>>33)%uint64(len(tab))]
		default:
			s = s*6364136223846793005 + 1442695040888963407
			out[i] = byte(s >> 33)
		}
	}
	return out
}

// PRNG is a deterministic Src (splitmix64).
type PRNG struct{ S uint64 }

func (p *PRNG) next() uint64 {
	p.S += 0x9E3779B97F4A7C15
	z := p.S
	z = (z ^ (z >> 30)) * 0xBF58476D1CE4E5B9
	z = (z ^ (z >> 27)) * 0x94D049BB133111EB
	return z ^ (z >> 31)
}
func (p *PRNG) Intn(n int, _ string) int {
	if n <= 1 {
		return 0
	}
	return int(p.next() % uint64(n))
}
func (p *PRNG) Uint64(_ string) uint64 { return p.next() }
func (p *PRNG) Bytes(n int, _ string) []byte {
	if n > 64 {
		return Expand(p.next(), int(p.next()%4), n)
	}
	out := make([]byte, n)
	for i := range out {
		out[i] = byte(p.next())
	}
	return out
}
