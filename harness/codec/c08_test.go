package codec

// C08 — encoded bytes are deterministic and follow the pinned wire format.

import (
	"bufio"
	"bytes"
	"crypto/sha256"
	"encoding/hex"
	"encoding/json"
	"fmt"
	"os"
	"path/filepath"
	"testing"

	"github.com/basecomplextech/baselibrary/buffer"
	spec "github.com/basecomplextech/spec"
	"pgregory.net/rapid"

	"verifharness/ev"
	"verifharness/gen"
	"verifharness/prog"
	"verifharness/refcodec"
)

const c08 = "C08"

type c08case struct {
	Tree  string   `json:"tree"`
	Feats []string `json:"api_features,omitempty"`
	Got   string   `json:"library_bytes,omitempty"`
	Want  string   `json:"reference_bytes,omitempty"`
	Note  string   `json:"note,omitempty"`
}

func firstDiff(a, b []byte) int {
	n := len(a)
	if len(b) < n {
		n = len(b)
	}
	for i := 0; i < n; i++ {
		if a[i] != b[i] {
			return i
		}
	}
	if len(a) != len(b) {
		return n
	}
	return -1
}

func diffWindow(b []byte, at int) string {
	lo := at - 8
	if lo < 0 {
		lo = 0
	}
	hi := at + 8
	if hi > len(b) {
		hi = len(b)
	}
	return fmt.Sprintf("[%d:%d]=%x", lo, hi, b[lo:hi])
}

// differential builds n through the library and compares with the reference encoder.
func differential(t ev.TB, s gen.Src, n *gen.Node) ([]byte, map[string]bool) {
	x := prog.NewExec(s)
	b, eff, err, pan := safeBuild(x, n)
	mk := func(want []byte) c08case {
		return c08case{Tree: n.Render(500), Feats: featList(x.Feats), Got: hexHead(b, 48), Want: hexHead(want, 48)}
	}
	if pan != "" || err != nil {
		ev.Violation(t, c08, "writer-failed", mk(nil), "legal program failed: err=%v panic=%s", err, pan)
	}
	want := refcodec.Encode(nil, eff)
	if d := firstDiff(b, want); d >= 0 {
		ev.Violation(t, c08, "bytes-differ-from-reference", mk(want), "library bytes differ from the pinned layout at offset %d (lib len %d %s, ref len %d %s)", d, len(b), diffWindow(b, d), len(want), diffWindow(want, d))
	}
	return b, x.Feats
}

// refReadable: bytes produced by the reference encoder (possibly in a write order the
// library's own program did not use) are read back identically by the library.
func refReadable(t ev.TB, n *gen.Node, seed uint64) {
	b := refcodec.Encode(nil, n)
	r := &prog.Reader{AbsentSeed: seed}
	if err, pan := safeCheck(r, n, b); pan != "" || err != nil {
		ev.Violation(t, c08, "library-misreads-reference-bytes", c08case{Tree: n.Render(500), Want: hexHead(b, 48)}, "library reads reference-encoded bytes differently: err=%v panic=%s", err, pan)
	}
}

func labelsC08(n *gen.Node, b []byte, hit map[string]bool) []string {
	var ls []string
	for h := range hit {
		ls = append(ls, "boundary:"+h)
	}
	if len(b) > 0 {
		ls = append(ls, fmt.Sprintf("roottype:%d", b[len(b)-1]))
	}
	return ls
}

func TestC08_Differential(t *testing.T) {
	ev.Rule(c08, "rapid: C01 tree/program generator; library bytes compared byte-for-byte with an independent reference encoder given the effective write order, and reference-encoded bytes read back through the library; non-trivial = tree contains a container or a multi-byte varint or crosses a boundary class; distinct by tree fingerprint")
	ev.Check(t, c08, func(rt *rapid.T) {
		s := gen.RapidSrc{T: rt}
		big := rapid.IntRange(0, 5).Draw(rt, "bigpayload") == 0
		n, hit := gen.Tree(s, gen.Limits{MaxDepth: 4, MaxNodes: 40, BigPayload: big})
		b, _ := differential(rt, s, n)
		refReadable(rt, n, rapid.Uint64().Draw(rt, "absentseed"))
		nt := len(hit) > 0 || n.Count() > 1 || len(b) > 2
		ev.Case(c08, n.Fingerprint(), nt, labelsC08(n, b, hit)...)
		if ev.WantSample(c08) {
			ev.Sample(c08, c08case{Tree: n.Render(200), Got: hexHead(b, 40)})
		}
	})
}

func TestC08_Sweep(t *testing.T) {
	if sh, _ := ev.Shard(); sh != 0 {
		t.Skip("deterministic; shard 0 only")
	}
	ev.Rule(c08, "boundary sweep (same items as C01) compared byte-for-byte with the reference encoder")
	type item struct {
		class string
		param int
		flag  bool
	}
	var items []item
	for _, c := range gen.FieldCounts {
		items = append(items, item{"count", c, true})
	}
	for _, c := range gen.ElemCounts {
		items = append(items, item{"count", c, false})
	}
	for _, l := range gen.PayloadLens {
		items = append(items, item{"payload", l, true}, item{"payload", l, false})
	}
	for _, o := range gen.OffsetTargets {
		items = append(items, item{"offset", o, true}, item{"offset", o, false})
	}
	for d := 1; d <= 22; d++ {
		items = append(items, item{"deep", d, false})
	}
	for i, it := range items {
		for rep := 0; rep < 3; rep++ {
			s := &gen.PRNG{S: ev.Seed()*7919 + uint64(i)*977 + uint64(rep)}
			n, hit := gen.Class(s, it.class, it.param, it.flag)
			b, _ := differential(t, s, n)
			refReadable(t, n, s.Uint64(""))
			ev.Case(c08, n.Fingerprint(), true, labelsC08(n, b, hit)...)
		}
	}
	ev.Require(c08, "boundary:fields=255", "boundary:fields>=256", "boundary:elems=255", "boundary:elems>=256",
		"boundary:msg-offset=65535", "boundary:msg-offset=65536", "boundary:list-offset=65535", "boundary:list-offset=65536",
		"boundary:tag=255", "boundary:tag=256", "roottype:70", "roottype:71", "roottype:80", "roottype:81")
}

// literal layouts written by hand from format.md + the pinned type codes: guards against
// an error shared by the reference encoder and the library.
var c08Literals = []struct {
	n   *gen.Node
	hex string
}{
	{gen.Bool(true), "01"},
	{gen.Bool(false), "02"},
	{gen.Byte(0xab), "ab03"},
	{gen.Int16(0), "000a"},
	{gen.Int16(-1), "010a"},
	{gen.Int16(1), "020a"},
	{gen.Int32(126), "fc0b"},
	{gen.Int32(-127), "00fdfd0b"},
	{gen.Int32(127), "00fefd0b"},
	{gen.Int32(-2147483648), "fffffffffe0b"},
	{gen.Int64(-9223372036854775808), "ffffffffffffffffff0c"},
	{gen.Int64(2147483648), "0000000100000000ff0c"},
	{gen.Uint16(252), "fc14"},
	{gen.Uint16(253), "00fdfd14"},
	{gen.Uint16(65535), "fffffd14"},
	{gen.Uint32(65536), "00010000fe15"},
	{gen.Uint32(4294967295), "fffffffffe15"},
	{gen.Uint64(4294967296), "0000000100000000ff16"},
	{gen.Float32(1), "3f80000028"},
	{gen.Float64(-2), "c00000000000000029"},
	{&gen.Node{Kind: gen.KBin64, B: []byte{1, 2, 3, 4, 5, 6, 7, 8}}, "01020304050607081e"},
	{&gen.Node{Kind: gen.KBin128, B: []byte{1, 2, 3, 4, 5, 6, 7, 8, 9, 10, 11, 12, 13, 14, 15, 16}}, "0102030405060708090a0b0c0d0e0f101f"},
	{gen.Bytes([]byte{}), "0032"},
	{gen.Bytes([]byte{9, 8}), "09080232"},
	{gen.String(""), "00003c"},
	{gen.String("hi"), "686900023c"},
	{gen.List(), "000046"},
	{gen.List(gen.Bool(true), gen.Byte(5)), "01" + "0503" + "0001" + "0003" + "03" + "04" + "46"},
	{gen.Message(), "000050"},
	{gen.Message(gen.F(2, gen.Bool(true)), gen.F(1, gen.Byte(5))), "01" + "0503" + "010003" + "020001" + "03" + "06" + "50"},
	{gen.Message(gen.F(256, gen.Bool(false))), "02" + "010000000001" + "01" + "06" + "51"},
	{&gen.Node{Kind: gen.KStruct, Elems: []*gen.Node{gen.Int32(1), gen.Bool(true)}}, "020b" + "01" + "03" + "5a"},
}

func TestC08_Literals(t *testing.T) {
	if sh, _ := ev.Shard(); sh != 0 {
		t.Skip("deterministic; shard 0 only")
	}
	ev.Rule(c08, "hand-written literal layouts (32 values, every type code) checked against both the library and the reference encoder")
	for i, lit := range c08Literals {
		want, _ := hex.DecodeString(lit.hex)
		ref := refcodec.Encode(nil, lit.n)
		if !bytes.Equal(ref, want) {
			t.Fatalf("harness error: reference encoder disagrees with literal %d %s: %x vs %x", i, lit.n.Render(80), ref, want)
		}
		s := &gen.PRNG{S: uint64(i) + ev.Seed()}
		x := prog.NewExec(s)
		b, _, err, pan := safeBuild(x, lit.n)
		if err != nil || pan != "" || !bytes.Equal(b, want) {
			ev.Violation(t, c08, "literal-layout", c08case{Tree: lit.n.Render(100), Got: hex.EncodeToString(b), Want: lit.hex}, "library encodes %s as %x, pinned layout is %s (err=%v %s)", lit.n.Render(100), b, lit.hex, err, pan)
		}
		ev.Case(c08, ev.Hash("lit", i), true, "literal")
	}
}

// failing prior programs for the history-independence check
func runFailingProgram(w spec.Writer, which int) {
	defer func() { recover() }() // a panic here is C12's business, not C08's
	switch which % 5 {
	case 0:
		w.Value().Bool(true)
		w.Value().Bool(true) // cannot push more data
	case 1:
		m := w.Message()
		m.Field(1).Int32(1)
		w.Value().Int32(1)
		w.Value().Build() // not root value
	case 2:
		l := w.List()
		l.Int64(5)
		m := l.Message()
		m.Field(3).String("abc")
		// left open
	case 3:
		m := w.Message()
		sub := m.Field(9).List()
		sub.Bytes([]byte{1, 2, 3})
		m.Field(10).Bool(true) // field inside a list: error
	case 4:
		m := w.Message()
		for i := 0; i < 60; i++ {
			m.Field(uint16(i * 5)).Uint32(uint32(i))
		}
		l := m.Field(1).List()
		for i := 0; i < 60; i++ {
			l.Int32(int32(i))
		}
		// left open, tables beyond the preallocated 48 entries
	}
}

func TestC08_HistoryIndependence(t *testing.T) {
	ev.Rule(c08, "history independence: the same program on a fresh writer, on an owned writer Reset after an arbitrary successful prior program, on an owned writer Reset after a failed/abandoned prior program, on a pooled writer acquired after a failed pooled use, and into a dirty reused buffer, must give identical bytes")
	ev.Check(t, c08, func(rt *rapid.T) {
		s := gen.RapidSrc{T: rt}
		n, hit := gen.Tree(s, gen.Limits{MaxDepth: 3, MaxNodes: 30})
		prior, _ := gen.Tree(s, gen.Limits{MaxDepth: 3, MaxNodes: 30})
		failKind := rapid.IntRange(0, 4).Draw(rt, "failkind")
		styleSeed := rapid.Uint64().Draw(rt, "styleseed")
		mkExec := func() *prog.Exec {
			// identical style decisions for every run of the program under test
			x := prog.NewExec(&gen.PRNG{S: styleSeed})
			return x
		}
		kase := c08case{Tree: n.Render(400), Note: fmt.Sprintf("prior=%s failkind=%d", prior.Render(200), failKind)}
		build := func(w spec.Writer, what string) []byte {
			b, _, err := mkExec().BuildWith(w, n)
			if err != nil {
				ev.Violation(rt, c08, "history:"+what+"-failed", kase, "program failed on %s: %v", what, err)
			}
			return append([]byte(nil), b...)
		}
		// 1. fresh
		w1 := spec.NewWriter()
		ref := build(w1, "fresh writer")
		w1.Free()
		cmp := func(b []byte, what string) {
			if !bytes.Equal(b, ref) {
				d := firstDiff(b, ref)
				ev.Violation(rt, c08, "history:"+what, kase, "bytes on %s differ from a fresh writer at offset %d (len %d vs %d)", what, d, len(b), len(ref))
			}
		}
		// 2. reset after successful prior program
		w2 := spec.NewWriter()
		if _, _, err := prog.NewExec(&gen.PRNG{S: styleSeed + 1}).BuildWith(w2, prior); err != nil {
			ev.Violation(rt, c08, "history:prior-failed", kase, "prior program failed: %v", err)
		}
		w2.Reset(buffer.New())
		cmp(build(w2, "writer reset after success"), "reset-after-success")
		// 3. reset after failed prior program, same writer again
		runFailingProgram(w2, failKind)
		w2.Reset(nil)
		cmp(build(w2, "writer reset after failure"), "reset-after-failure")
		w2.Free()
		// 4. pooled writers: fail one, then use the pool again
		pb := buffer.New()
		pm := spec.NewMessageWriterBuffer(pb)
		runFailingProgram(pm.Unwrap(), failKind)
		func() {
			defer func() { recover() }()
			pm.Unwrap().Free()
		}()
		// pooled path proper: acquire via the public constructors and write the program
		{
			buf := buffer.New()
			x := mkExec()
			var got []byte
			var err error
			switch n.Kind {
			case gen.KMessage:
				m := spec.NewMessageWriterBuffer(buf)
				got, err = fillAndBuildMessage(x, m, n)
			case gen.KList:
				l := spec.NewListWriterBuffer(buf)
				got, err = fillAndBuildList(x, l, n)
			}
			if n.Kind == gen.KMessage || n.Kind == gen.KList {
				if err != nil {
					ev.Violation(rt, c08, "history:pooled-failed", kase, "program failed on pooled writer: %v", err)
				}
				cmp(append([]byte(nil), got...), "pooled-after-failure")
			}
		}
		// 5. dirty reused buffer: previously held longer content
		dirty := buffer.New()
		dirty.Write(bytes.Repeat([]byte{0xfd, 0xfe, 0xff, 0x50, 0x46}, (len(ref)/5)+40))
		dirty.Reset()
		w5 := spec.NewWriterBuffer(dirty)
		cmp(build(w5, "dirty reused buffer"), "dirty-buffer")
		w5.Free()
		ev.Case(c08, ev.Hash("hist", n.Fingerprint(), prior.Fingerprint(), failKind), true, "history")
		_ = hit
	})
}

func fillAndBuildMessage(x *prog.Exec, m spec.MessageWriter, n *gen.Node) ([]byte, error) {
	return x.FillBuildMessage(m, n)
}
func fillAndBuildList(x *prog.Exec, l spec.ListWriter, n *gen.Node) ([]byte, error) {
	return x.FillBuildList(l, n)
}

// ---- golden corpus ----

type goldenLine struct {
	Tree   json.RawMessage `json:"tree"`
	Len    int             `json:"len"`
	SHA256 string          `json:"sha256"`
	Hex    string          `json:"hex,omitempty"`
}

func goldenPath() string {
	root := os.Getenv("VERIF_ROOT")
	if root == "" {
		root = "/verif"
	}
	return filepath.Join(root, "golden", "c08.jsonl")
}

// TestC08_Golden replays the frozen corpus captured at the pinned commit.
func TestC08_Golden(t *testing.T) {
	if sh, _ := ev.Shard(); sh != 0 {
		t.Skip("deterministic; shard 0 only")
	}
	if os.Getenv("VERIF_WRITE_GOLDEN") != "" {
		writeGolden(t)
		return
	}
	ev.Rule(c08, "golden corpus frozen at the pinned commit: (tree in write order, bytes) pairs; the library (direct styles and drawn styles) and the reference encoder must both still produce exactly those bytes, and the library must read them back")
	f, err := os.Open(goldenPath())
	if err != nil {
		t.Fatalf("golden corpus missing: %v", err)
	}
	defer f.Close()
	sc := bufio.NewScanner(f)
	sc.Buffer(make([]byte, 1<<20), 64<<20)
	count := 0
	for sc.Scan() {
		var gl goldenLine
		if err := json.Unmarshal(sc.Bytes(), &gl); err != nil {
			t.Fatalf("golden line %d: %v", count, err)
		}
		n, err := gen.UnmarshalNode(gl.Tree)
		if err != nil {
			t.Fatalf("golden line %d: %v", count, err)
		}
		ref := refcodec.Encode(nil, n)
		sum := sha256.Sum256(ref)
		if len(ref) != gl.Len || hex.EncodeToString(sum[:]) != gl.SHA256 {
			t.Fatalf("harness error: reference encoder no longer reproduces golden line %d (%s)", count, n.Render(200))
		}
		x := prog.NewExec(&gen.PRNG{S: uint64(count) + ev.Seed()})
		x.NoRaw = count%2 == 0
		b, eff, err, pan := safeBuild(x, n)
		kase := c08case{Tree: n.Render(400), Feats: featList(x.Feats), Got: hexHead(b, 48), Want: hexHead(ref, 48)}
		if err != nil || pan != "" {
			ev.Violation(t, c08, "golden-writer-failed", kase, "golden program %d failed: %v %s", count, err, pan)
		}
		if gen.Equal(eff, n, true) { // Copy/Merge may legitimately reorder; those are compared via the reference encoder in the differential test
			bs := sha256.Sum256(b)
			if len(b) != gl.Len || hex.EncodeToString(bs[:]) != gl.SHA256 {
				ev.Violation(t, c08, "golden-bytes-changed", kase, "bytes for golden case %d differ from those captured at the pinned commit (first diff at %d)", count, firstDiff(b, ref))
			}
		}
		r := &prog.Reader{AbsentSeed: uint64(count)}
		if err, pan := safeCheck(r, n, ref); err != nil || pan != "" {
			ev.Violation(t, c08, "golden-unreadable", kase, "golden bytes of case %d are read differently: %v %s", count, err, pan)
		}
		ev.Case(c08, ev.Hash("golden", gl.SHA256), true, "golden")
		count++
	}
	if count < 100 {
		t.Fatalf("golden corpus too small: %d", count)
	}
	ev.Require(c08, "golden")
}

func writeGolden(t *testing.T) {
	os.MkdirAll(filepath.Dir(goldenPath()), 0o755)
	f, err := os.Create(goldenPath())
	if err != nil {
		t.Fatal(err)
	}
	defer f.Close()
	w := bufio.NewWriter(f)
	defer w.Flush()
	emit := func(n *gen.Node, s gen.Src) {
		x := prog.NewExec(s)
		x.NoRaw = true
		b, eff, err := x.Build(n)
		if err != nil {
			t.Fatalf("golden build: %v", err)
		}
		if !gen.Equal(eff, n, true) {
			t.Fatalf("golden: effective tree reordered")
		}
		ref := refcodec.Encode(nil, n)
		if !bytes.Equal(ref, b) {
			t.Fatalf("golden: library and reference encoder disagree on %s", n.Render(200))
		}
		sum := sha256.Sum256(b)
		tj, _ := json.Marshal(n)
		gl := goldenLine{Tree: tj, Len: len(b), SHA256: hex.EncodeToString(sum[:])}
		if len(b) <= 256 {
			gl.Hex = hex.EncodeToString(b)
		}
		line, _ := json.Marshal(gl)
		w.Write(line)
		w.WriteByte('\n')
	}
	s := &gen.PRNG{S: 20260922}
	for _, lit := range c08Literals {
		emit(lit.n, s)
	}
	for i := 0; i < 1500; i++ {
		n, _ := gen.Tree(s, gen.Limits{MaxDepth: 4, MaxNodes: 40, BigPayload: false})
		emit(n, s)
	}
	// a bounded number of large boundary cases
	for _, o := range gen.OffsetTargets {
		for _, msg := range []bool{true, false} {
			n, _ := gen.Class(s, "offset", o, msg)
			emit(n, s)
		}
	}
	for _, c := range []int{48, 49, 255, 256, 300} {
		for _, msg := range []bool{true, false} {
			n, _ := gen.Class(s, "count", c, msg)
			emit(n, s)
		}
	}
	for _, d := range []int{13, 14, 15, 22} {
		n, _ := gen.Class(s, "deep", d, false)
		emit(n, s)
	}
	for _, l := range []int{0xfc, 0xfd, 0xffff, 0x10000} {
		n, _ := gen.Class(s, "payload", l, l%2 == 0)
		emit(n, s)
	}
}
