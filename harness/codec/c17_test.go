package codec

// C17 — reading allocates nothing; steady-state writing allocates nothing.

import (
	"fmt"
	"math"
	"runtime/debug"
	"testing"
	"unsafe"

	"github.com/basecomplextech/baselibrary/bin"
	"github.com/basecomplextech/baselibrary/buffer"
	spec "github.com/basecomplextech/spec"
	"pgregory.net/rapid"

	"verifharness/ev"
	"verifharness/gen"
	"verifharness/prog"
	"verifharness/refcodec"
)

const c17 = "C17"

type c17case struct {
	Tree   string  `json:"shape"`
	Fields int     `json:"max_fields"`
	Depth  int     `json:"depth"`
	Bytes  int     `json:"encoded_bytes"`
	Allocs float64 `json:"allocs_per_run,omitempty"`
	Mode   string  `json:"mode,omitempty"`
}

// sinks keep results alive without allocating
var (
	sinkI   int64
	sinkU   uint64
	sinkF   float64
	sinkB   []byte
	sinkS   spec.String
	sinkBin bin.Bin256
	sinkErr error
)

func nodeString(n *gen.Node) string {
	if len(n.B) == 0 {
		return ""
	}
	return unsafe.String(&n.B[0], len(n.B))
}

type leanSink interface {
	Bool(bool) error
	Byte(byte) error
	Int16(int16) error
	Int32(int32) error
	Int64(int64) error
	Uint16(uint16) error
	Uint32(uint32) error
	Uint64(uint64) error
	Float32(float32) error
	Float64(float64) error
	Bin64(bin.Bin64) error
	Bin128(bin.Bin128) error
	Bin256(bin.Bin256) error
	Bytes([]byte) error
	String(string) error
}

// lean writers: only library calls and preallocated inputs (no fmt, maps or closures).
func leanField(m spec.MessageWriter, tag uint16, v *gen.Node) error {
	f := m.Field(tag)
	switch v.Kind {
	case gen.KMessage:
		sub := f.Message()
		for i := range v.Fields {
			if err := leanField(sub, v.Fields[i].Tag, v.Fields[i].V); err != nil {
				return err
			}
		}
		return sub.End()
	case gen.KList:
		sub := f.List()
		for _, e := range v.Elems {
			if err := leanElem(sub, e); err != nil {
				return err
			}
		}
		return sub.End()
	case gen.KStruct:
		return spec.WriteField(f, v, prog.WriteStruct)
	}
	return leanScalarField(f, v)
}

func leanScalarField(f spec.FieldWriter, v *gen.Node) error {
	switch v.Kind {
	case gen.KBool:
		return f.Bool(v.I != 0)
	case gen.KByte:
		return f.Byte(byte(v.I))
	case gen.KInt16:
		return f.Int16(int16(v.I))
	case gen.KInt32:
		return f.Int32(int32(v.I))
	case gen.KInt64:
		return f.Int64(v.I)
	case gen.KUint16:
		return f.Uint16(uint16(v.U))
	case gen.KUint32:
		return f.Uint32(uint32(v.U))
	case gen.KUint64:
		return f.Uint64(v.U)
	case gen.KFloat32:
		return f.Float32(math.Float32frombits(uint32(v.U)))
	case gen.KFloat64:
		return f.Float64(math.Float64frombits(v.U))
	case gen.KBin64:
		return f.Bin64(prog.B64(v.B))
	case gen.KBin128:
		return f.Bin128(prog.B128(v.B))
	case gen.KBin256:
		return f.Bin256(prog.B256(v.B))
	case gen.KBytes:
		return f.Bytes(v.B)
	case gen.KString:
		return f.String(nodeString(v))
	}
	return nil
}

func leanElem(l spec.ListWriter, v *gen.Node) error {
	switch v.Kind {
	case gen.KMessage:
		sub := l.Message()
		for i := range v.Fields {
			if err := leanField(sub, v.Fields[i].Tag, v.Fields[i].V); err != nil {
				return err
			}
		}
		return sub.End()
	case gen.KList:
		sub := l.List()
		for _, e := range v.Elems {
			if err := leanElem(sub, e); err != nil {
				return err
			}
		}
		return sub.End()
	case gen.KStruct:
		return spec.NewValueListWriter(l, prog.WriteStruct).Add(v)
	case gen.KBool:
		return l.Bool(v.I != 0)
	case gen.KByte:
		return l.Byte(byte(v.I))
	case gen.KInt16:
		return l.Int16(int16(v.I))
	case gen.KInt32:
		return l.Int32(int32(v.I))
	case gen.KInt64:
		return l.Int64(v.I)
	case gen.KUint16:
		return l.Uint16(uint16(v.U))
	case gen.KUint32:
		return l.Uint32(uint32(v.U))
	case gen.KUint64:
		return l.Uint64(v.U)
	case gen.KFloat32:
		return l.Float32(math.Float32frombits(uint32(v.U)))
	case gen.KFloat64:
		return l.Float64(math.Float64frombits(v.U))
	case gen.KBin64:
		return l.Bin64(prog.B64(v.B))
	case gen.KBin128:
		return l.Bin128(prog.B128(v.B))
	case gen.KBin256:
		return l.Bin256(prog.B256(v.B))
	case gen.KBytes:
		return l.Bytes(v.B)
	case gen.KString:
		return l.String(nodeString(v))
	}
	return nil
}

func leanMessage(m spec.MessageWriter, n *gen.Node) ([]byte, error) {
	for i := range n.Fields {
		if err := leanField(m, n.Fields[i].Tag, n.Fields[i].V); err != nil {
			return nil, err
		}
	}
	return m.Build()
}

// lean reader: parse + every accessor reachable according to the shape.
func leanReadMessage(b []byte, n *gen.Node) bool {
	m, sz, err := spec.ParseMessage(b)
	if err != nil || sz != len(b) {
		sinkErr = err
		return false
	}
	return leanWalkMessage(m, n)
}

// leanAbsent reads tags the message does not have, and positions beyond its table, through every kind
// of accessor ("accessing any of its fields" includes the ones that are not there: a reader of a newer
// schema version does that all the time).
func leanAbsent(m spec.Message, n *gen.Node) {
	present := func(t uint16) bool {
		for i := range n.Fields {
			if n.Fields[i].Tag == t {
				return true
			}
		}
		return false
	}
	for _, tag := range [...]uint16{0, 1, 2, 7, 255, 256, 257, 4000, 65535} {
		if present(tag) {
			continue
		}
		if m.HasField(tag) {
			sinkI++
		}
		sinkB = m.Field(tag)
		sinkB = m.FieldRaw(tag)
		sinkI += int64(m.Int32(tag))
		sinkI += m.Int64(tag)
		sinkU += m.Uint64(tag)
		sinkF += m.Float64(tag)
		sinkB = m.Bytes(tag)
		sinkS = m.String(tag)
		if m.Bool(tag) {
			sinkI++
		}
		sub := m.Message(tag)
		sinkI += int64(sub.Fields())
		lst := m.List(tag)
		sinkI += int64(lst.Len())
		_, sinkErr = m.Int32Err(tag)
	}
	sinkB = m.FieldAt(m.Fields())
	sinkB = m.FieldAt(m.Fields() + 7)
	if t, ok := m.TagAt(m.Fields()); ok {
		sinkU += uint64(t)
	}
}

func leanWalkMessage(m spec.Message, n *gen.Node) bool {
	if m.Fields() != len(n.Fields) {
		return false
	}
	leanAbsent(m, n)
	ok := true
	for i := range n.Fields {
		tag := n.Fields[i].Tag
		v := n.Fields[i].V
		if !m.HasField(tag) {
			return false
		}
		sinkB = m.FieldRaw(tag)
		if i < 64 {
			t, tok := m.TagAt(i)
			sinkU += uint64(t)
			ok = ok && tok
			sinkB = m.FieldAt(i)
		}
		switch v.Kind {
		case gen.KBool:
			if m.Bool(tag) {
				sinkI++
			}
			_, sinkErr = m.BoolErr(tag)
		case gen.KByte:
			sinkI += int64(m.Byte(tag))
		case gen.KInt16:
			sinkI += int64(m.Int16(tag))
		case gen.KInt32:
			sinkI += int64(m.Int32(tag))
			x, err := m.Int32Err(tag)
			sinkI += int64(x)
			sinkErr = err
		case gen.KInt64:
			sinkI += m.Int64(tag)
		case gen.KUint16:
			sinkU += uint64(m.Uint16(tag))
		case gen.KUint32:
			sinkU += uint64(m.Uint32(tag))
		case gen.KUint64:
			sinkU += m.Uint64(tag)
		case gen.KFloat32:
			sinkF += float64(m.Float32(tag))
		case gen.KFloat64:
			sinkF += m.Float64(tag)
		case gen.KBin64:
			sinkBin[0] = m.Bin64(tag)
		case gen.KBin128:
			x := m.Bin128(tag)
			sinkBin[0], sinkBin[1] = x[0], x[1]
		case gen.KBin256:
			sinkBin = m.Bin256(tag)
		case gen.KBytes:
			sinkB = m.Bytes(tag)
			ok = ok && len(sinkB) == len(v.B)
		case gen.KString:
			sinkS = m.String(tag)
			ok = ok && len(sinkS) == len(v.B)
			s2, err := m.StringErr(tag)
			sinkS, sinkErr = s2, err
		case gen.KStruct:
			raw := m.Field(tag)
			ds, sz, err := spec.DecodeStruct(raw)
			sinkI += int64(ds + sz)
			sinkErr = err
			body := raw[:len(raw)-(sz-ds)]
			for j := len(v.Elems) - 1; j >= 0; j-- {
				_, ms, _ := spec.DecodeTypeSize(body)
				leanScalarValue(spec.Value(body), v.Elems[j])
				body = body[:len(body)-ms]
			}
		case gen.KList:
			ok = ok && leanWalkList(m.List(tag), v)
		case gen.KMessage:
			ok = ok && leanWalkMessage(m.Message(tag), v)
		}
	}
	return ok
}

func leanScalarValue(val spec.Value, v *gen.Node) {
	switch v.Kind {
	case gen.KBool:
		if val.Bool() {
			sinkI++
		}
	case gen.KByte:
		sinkI += int64(val.Byte())
	case gen.KInt16:
		sinkI += int64(val.Int16())
	case gen.KInt32:
		sinkI += int64(val.Int32())
	case gen.KInt64:
		sinkI += val.Int64()
	case gen.KUint16:
		sinkU += uint64(val.Uint16())
	case gen.KUint32:
		sinkU += uint64(val.Uint32())
	case gen.KUint64:
		sinkU += val.Uint64()
	case gen.KFloat32:
		sinkF += float64(val.Float32())
	case gen.KFloat64:
		sinkF += val.Float64()
	case gen.KBin64:
		sinkBin[0] = val.Bin64()
	case gen.KBin128:
		x := val.Bin128()
		sinkBin[0] = x[0]
	case gen.KBin256:
		sinkBin = val.Bin256()
	case gen.KBytes:
		sinkB = val.Bytes()
	case gen.KString:
		sinkS = val.String()
	}
}

func leanWalkList(l spec.List, n *gen.Node) bool {
	if l.Len() != len(n.Elems) {
		return false
	}
	ok := true
	for i, e := range n.Elems {
		val := l.Get(i)
		sinkB = l.GetBytes(i)
		switch e.Kind {
		case gen.KList:
			ok = ok && leanWalkList(val.List(), e)
		case gen.KMessage:
			ok = ok && leanWalkMessage(val.Message(), e)
		case gen.KStruct:
			ds, sz, _ := spec.DecodeStruct(val)
			sinkI += int64(ds + sz)
		default:
			leanScalarValue(val, e)
		}
	}
	// typed wrappers over homogeneous lists
	homo := len(n.Elems) > 0
	for _, e := range n.Elems {
		if e.Kind != gen.KInt32 {
			homo = false
		}
	}
	if homo {
		tl := spec.NewValueList(l, spec.DecodeInt32)
		sinkI += int64(tl.Get(0))
		x, err := tl.GetErr(len(n.Elems) - 1)
		sinkI += int64(x)
		sinkErr = err
	}
	return ok
}

func maxWidth(n *gen.Node) int {
	w := len(n.Fields)
	if len(n.Elems) > w {
		w = len(n.Elems)
	}
	for _, f := range n.Fields {
		if x := maxWidth(f.V); x > w {
			w = x
		}
	}
	for _, e := range n.Elems {
		if x := maxWidth(e); x > w {
			w = x
		}
	}
	return w
}

// measure returns allocations per run of f with the collector disabled.
func measure(f func()) float64 {
	old := debug.SetGCPercent(-1)
	defer debug.SetGCPercent(old)
	return testing.AllocsPerRun(50, f)
}

func c17shape(t ev.TB, n *gen.Node, hit map[string]bool) {
	if n.Kind != gen.KMessage {
		n = gen.Message(gen.F(1, n))
	}
	ref := refcodec.Encode(nil, n)
	kase := c17case{Tree: n.Render(300), Fields: maxWidth(n), Depth: n.Depth(), Bytes: len(ref)}
	// ---- read ----
	okRead := true
	a := measure(func() { okRead = leanReadMessage(ref, n) && okRead })
	if !okRead {
		ev.Violation(t, c17, "harness-read-walk", kase, "lean read walk disagrees with the shape (harness error or C01 violation)")
	}
	if a != 0 {
		kase.Allocs, kase.Mode = a, "read"
		ev.Violation(t, c17, "read-allocates", kase, "parsing and reading every field of the shape allocates %.2f objects per run (must be 0)", a)
	}
	// ---- write, pooled writer + reused buffer ----
	buf := buffer.NewSize(len(ref) + 64)
	var werr error
	var out []byte
	pooled := func() {
		buf.Reset()
		m := spec.NewMessageWriterBuffer(buf)
		out, werr = leanMessage(m, n)
	}
	for i := 0; i < 3; i++ {
		pooled() // warm-up: table/stack growth beyond the preallocated sizes, pool fill
	}
	a = measure(pooled)
	if werr != nil || string(out) != string(ref) {
		ev.Violation(t, c17, "harness-write", kase, "lean writer failed or bytes differ from reference: %v", werr)
	}
	if a != 0 {
		kase.Allocs, kase.Mode = a, "write-pooled"
		ev.Violation(t, c17, "write-pooled-allocates", kase, "steady-state write with a pooled writer into a reused buffer allocates %.2f objects per message (must be 0)", a)
	}
	// ---- write, owned writer + Reset ----
	w := spec.NewWriter()
	owned := func() {
		buf.Reset()
		w.Reset(buf)
		m := w.Message()
		out, werr = leanMessage(m, n)
	}
	for i := 0; i < 3; i++ {
		owned()
	}
	a = measure(owned)
	w.Free()
	if werr != nil || string(out) != string(ref) {
		ev.Violation(t, c17, "harness-write", kase, "lean writer (owned) failed or bytes differ from reference: %v", werr)
	}
	if a != 0 {
		kase.Allocs, kase.Mode = a, "write-owned-reset"
		ev.Violation(t, c17, "write-owned-allocates", kase, "steady-state write with a reused owned writer (Reset) allocates %.2f objects per message (must be 0)", a)
	}
	nt := kase.Fields > 48 || kase.Depth >= 3 || len(hit) > 0
	ls := []string{fmt.Sprintf("width>48=%v", kase.Fields > 48), fmt.Sprintf("depth>=14=%v", kase.Depth >= 14), fmt.Sprintf("big=%v", ref[len(ref)-1] == refcodec.TBigMessage)}
	ev.Case(c17, n.Fingerprint(), nt, ls...)
	if ev.WantSample(c17) {
		ev.Sample(c17, kase)
	}
}

func TestC17_Shapes(t *testing.T) {
	ev.Rule(c17, "rapid: message shapes from the C01 generator (wrapped into a root message when needed); per shape testing.AllocsPerRun(50) with GC disabled for (1) ParseMessage + every typed accessor/Field/FieldAt/TagAt/List.Get/nested/struct members, (2) write with NewMessageWriterBuffer into a reused buffer after 3 warm-up runs, (3) write with an owned writer + Reset; measurement loops contain only library calls and preallocated inputs; non-trivial = a table wider than 48 entries, depth>=3 or a boundary class; distinct by shape fingerprint")
	ev.Check(t, c17, func(rt *rapid.T) {
		s := gen.RapidSrc{T: rt}
		big := rapid.IntRange(0, 9).Draw(rt, "bigpayload") == 0
		n, hit := gen.Tree(s, gen.Limits{MaxDepth: 4, MaxNodes: 40, BigPayload: big})
		c17shape(rt, n, hit)
	})
}

func TestC17_Sweep(t *testing.T) {
	if sh, _ := ev.Shard(); sh != 0 {
		t.Skip("deterministic; shard 0 only")
	}
	ev.Rule(c17, "sweep: field/element counts {47,48,49,255,256,300}, depths {13..16,22}, 64 KiB offset boundary shapes")
	s := &gen.PRNG{S: ev.Seed() + 17}
	for _, c := range []int{1, 47, 48, 49, 255, 256, 300} {
		for _, msg := range []bool{true, false} {
			n, hit := gen.Class(s, "count", c, msg)
			c17shape(t, n, hit)
		}
	}
	for _, d := range []int{3, 13, 14, 15, 16, 22} {
		n, hit := gen.Class(s, "deep", d, false)
		c17shape(t, n, hit)
	}
	for _, o := range []int{65535, 65536} {
		for _, msg := range []bool{true, false} {
			n, hit := gen.Class(s, "offset", o, msg)
			c17shape(t, n, hit)
		}
	}
	ev.Require(c17, "width>48=true", "depth>=14=true", "big=true")
}
