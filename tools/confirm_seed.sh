#!/bin/bash
# usage: tools/confirm_seed.sh <ID> : fresh worktree at /repo HEAD, apply /tmp/seed/<ID>.out/patch.diff, build, run the existing suite.
set -u
id=$1
export GOFLAGS=-mod=mod GOPROXY=off
dir=/tmp/verif-mut/confirm-$id
rm -rf "$dir"; git -C /repo worktree prune
git -C /repo worktree add --detach -q "$dir" HEAD || exit 3
# generated test code is git-ignored: take it from /repo's working tree
(cd /repo && find internal/tests -name '*_generated.go' | while read f; do cp "$f" "$dir/$f"; done)
if ! git -C "$dir" apply /tmp/seed/$id.${SEED_SUFFIX:-out}/patch.diff; then echo "PATCH DOES NOT APPLY"; exit 3; fi
echo "patch: $(git -C "$dir" diff --stat | tail -1)"
(cd "$dir" && go build ./... 2>&1 | tail -3 && go test -vet=off -count=1 ./... 2>&1 | grep -v "no test files" | grep -v "^ok" | tail -8; echo "suite exit: done")
echo "worktree kept at $dir (remove with: git -C /repo worktree remove --force $dir)"
