package schema

import (
	"bytes"
	"encoding/json"
	"fmt"
	"math/big"
	"strconv"
)

// Mirror of internal/lang/syntax for encoding/json (same field names and order).
type jFile struct {
	Path        string
	Imports     []*jImport
	Options     []*jOption
	Definitions []*jDef
}
type jImport struct{ ID, Alias string }
type jOption struct{ Name, Value string }
type jDef struct {
	Type    int
	Name    string
	Enum    *jEnum
	Message *jMessage
	Struct  *jStruct
	Service *jService
}
type jEnum struct{ Values []*jEnumValue }
type jEnumValue struct {
	Name  string
	Value int
}
type jMessage struct{ Fields []*jField }
type jField struct {
	Name string
	Type *jType
	Tag  int
}
type jStruct struct{ Fields []*jStructField }
type jStructField struct {
	Name string
	Type *jType
}
type jService struct {
	Sub     bool
	Methods []*jMethod
}
type jMethod struct {
	Name    string
	Input   any
	Output  any
	Channel *jChannel
	Oneway  bool
}
type jChannel struct{ In, Out *jType }
type jType struct {
	Kind    int
	Name    string
	Import  string
	Element *jType
}

func toJType(t Type) *jType {
	base := &jType{Name: t.Name, Import: t.Pkg}
	if t.Pkg != "" {
		base.Kind = 19
	} else if k, ok := builtinKind[t.Name]; ok {
		base.Kind = k
	} else {
		base.Kind = 19
	}
	if t.List {
		return &jType{Kind: 18, Element: base}
	}
	return base
}

func atoi(s string) int {
	v, _ := strconv.ParseInt(s, 10, 64)
	return int(v)
}

func toJFields(fs []Field) []*jField {
	if len(fs) == 0 {
		return nil
	}
	out := make([]*jField, 0, len(fs))
	for _, f := range fs {
		out = append(out, &jField{Name: f.Name, Type: toJType(f.Type), Tag: atoi(f.Tag)})
	}
	return out
}

// ExpectedJSON is what encoding/json must give for the parser's tree of Render(f).
func ExpectedJSON(f *File) []byte {
	j := &jFile{}
	for _, im := range f.Imports {
		j.Imports = append(j.Imports, &jImport{ID: im.ID, Alias: im.Alias})
	}
	for _, o := range f.Options {
		j.Options = append(j.Options, &jOption{Name: o.Name, Value: o.Value})
	}
	for _, d := range f.Defs {
		jd := &jDef{Name: d.Name}
		switch d.Kind {
		case DefEnum:
			jd.Type = 1
			e := &jEnum{}
			for _, v := range d.Values {
				e.Values = append(e.Values, &jEnumValue{Name: v.Name, Value: atoi(v.Value)})
			}
			jd.Enum = e
		case DefMessage:
			jd.Type = 2
			jd.Message = &jMessage{Fields: toJFields(d.Fields)}
		case DefStruct:
			jd.Type = 3
			s := &jStruct{}
			for _, fl := range d.Fields {
				s.Fields = append(s.Fields, &jStructField{Name: fl.Name, Type: toJType(fl.Type)})
			}
			jd.Struct = s
		case DefService, DefSubservice:
			jd.Type = 4
			sv := &jService{Sub: d.Kind == DefSubservice}
			for _, m := range d.Methods {
				jm := &jMethod{Name: m.Name, Oneway: m.Oneway}
				if m.InputType != nil {
					jm.Input = toJType(*m.InputType)
				} else {
					jm.Input = toJFields(m.InputFields)
				}
				if m.HasOutput {
					if m.OutputType != nil {
						jm.Output = toJType(*m.OutputType)
					} else {
						jm.Output = toJFields(m.OutputFields)
					}
				}
				if m.ChanIn != nil || m.ChanOut != nil {
					ch := &jChannel{}
					if m.ChanIn != nil {
						ch.In = toJType(*m.ChanIn)
					}
					if m.ChanOut != nil {
						ch.Out = toJType(*m.ChanOut)
					}
					jm.Channel = ch
				}
				sv.Methods = append(sv.Methods, jm)
			}
			jd.Service = sv
		}
		j.Definitions = append(j.Definitions, jd)
	}
	b, _ := json.Marshal(j)
	return b
}

// FromJSON converts the parser's JSON tree back into the harness AST (for re-printing).
func FromJSON(b []byte) (*File, error) {
	type rMethod struct {
		Name    string
		Input   json.RawMessage
		Output  json.RawMessage
		Channel *jChannel
		Oneway  bool
	}
	type rService struct {
		Sub     bool
		Methods []*rMethod
	}
	type rDef struct {
		Type int
		Name string
		Enum *struct {
			Values []*struct {
				Name  string
				Value json.Number
			}
		}
		Message *struct {
			Fields []*struct {
				Name string
				Type *jType
				Tag  json.Number
			}
		}
		Struct  *jStruct
		Service *rService
	}
	var raw struct {
		Imports     []*jImport
		Options     []*jOption
		Definitions []*rDef
	}
	dec := json.NewDecoder(bytes.NewReader(b))
	dec.UseNumber()
	if err := dec.Decode(&raw); err != nil {
		return nil, err
	}
	fromT := func(t *jType) (Type, error) {
		if t == nil {
			return Type{}, fmt.Errorf("nil type")
		}
		if t.Kind == 18 {
			if t.Element == nil {
				return Type{}, fmt.Errorf("list without element")
			}
			return Type{List: true, Pkg: t.Element.Import, Name: t.Element.Name}, nil
		}
		return Type{Pkg: t.Import, Name: t.Name}, nil
	}
	type rField = struct {
		Name string
		Type *jType
		Tag  json.Number
	}
	fields := func(m json.RawMessage) (*Type, []Field, bool, error) {
		s := bytes.TrimSpace(m)
		if len(s) == 0 || string(s) == "null" {
			return nil, nil, false, nil
		}
		if s[0] == '{' {
			var t jType
			if err := json.Unmarshal(s, &t); err != nil {
				return nil, nil, false, err
			}
			ty, err := fromT(&t)
			return &ty, nil, true, err
		}
		var fs []*rField
		d := json.NewDecoder(bytes.NewReader(s))
		d.UseNumber()
		if err := d.Decode(&fs); err != nil {
			return nil, nil, false, err
		}
		var out []Field
		for _, f := range fs {
			ty, err := fromT(f.Type)
			if err != nil {
				return nil, nil, false, err
			}
			out = append(out, Field{Name: f.Name, Type: ty, Tag: f.Tag.String()})
		}
		return nil, out, true, nil
	}
	f := &File{}
	for _, im := range raw.Imports {
		f.Imports = append(f.Imports, Import{Alias: im.Alias, ID: im.ID})
	}
	for _, o := range raw.Options {
		f.Options = append(f.Options, Option{Name: o.Name, Value: o.Value})
	}
	for _, d := range raw.Definitions {
		def := &Def{Name: d.Name}
		switch {
		case d.Enum != nil:
			def.Kind = DefEnum
			for _, v := range d.Enum.Values {
				def.Values = append(def.Values, EnumValue{Name: v.Name, Value: v.Value.String()})
			}
		case d.Message != nil:
			def.Kind = DefMessage
			for _, fl := range d.Message.Fields {
				ty, err := fromT(fl.Type)
				if err != nil {
					return nil, err
				}
				def.Fields = append(def.Fields, Field{Name: fl.Name, Type: ty, Tag: fl.Tag.String()})
			}
		case d.Struct != nil:
			def.Kind = DefStruct
			for _, fl := range d.Struct.Fields {
				ty, err := fromT(fl.Type)
				if err != nil {
					return nil, err
				}
				def.Fields = append(def.Fields, Field{Name: fl.Name, Type: ty})
			}
		case d.Service != nil:
			def.Kind = DefService
			if d.Service.Sub {
				def.Kind = DefSubservice
			}
			for _, m := range d.Service.Methods {
				mm := Method{Name: m.Name, Oneway: m.Oneway}
				it, ifs, _, err := fields(m.Input)
				if err != nil {
					return nil, err
				}
				mm.InputType, mm.InputFields = it, ifs
				ot, ofs, has, err := fields(m.Output)
				if err != nil {
					return nil, err
				}
				// an empty output field list "()" is recorded as a nil list: indistinguishable from no output in JSON
				mm.HasOutput, mm.OutputType, mm.OutputFields = has, ot, ofs
				if m.Channel != nil {
					if m.Channel.In != nil {
						t, err := fromT(m.Channel.In)
						if err != nil {
							return nil, err
						}
						mm.ChanIn = &t
					}
					if m.Channel.Out != nil {
						t, err := fromT(m.Channel.Out)
						if err != nil {
							return nil, err
						}
						mm.ChanOut = &t
					}
				}
				def.Methods = append(def.Methods, mm)
			}
		default:
			return nil, fmt.Errorf("definition %q without body", d.Name)
		}
		f.Defs = append(f.Defs, def)
	}
	return f, nil
}

// decimalValue returns the exact value of a purely decimal literal.
func decimalValue(s string) (*big.Int, bool) {
	if s == "" {
		return nil, false
	}
	for _, c := range s {
		if c < '0' || c > '9' {
			return nil, false
		}
	}
	v, ok := new(big.Int).SetString(s, 10)
	return v, ok
}
