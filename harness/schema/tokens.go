package schema

import (
	"strings"
	"text/scanner"
)

// Token is one significant token of a source text.
type Token struct {
	Kind rune // scanner.Ident, Int, Float, Char, String, RawString or the character itself
	Text string
}

// Tokens scans text with text/scanner (Go token mode, comments skipped) and reports
// whether the scanner raised a lexical error.
func Tokens(src string) (toks []Token, lexErrors int) {
	var s scanner.Scanner
	s.Init(strings.NewReader(src))
	s.Error = func(*scanner.Scanner, string) { lexErrors++ }
	for {
		t := s.Scan()
		if t == scanner.EOF {
			break
		}
		toks = append(toks, Token{Kind: t, Text: s.TokenText()})
	}
	return toks, lexErrors + s.ErrorCount*0
}

// Normalize removes separators the grammar makes optional (';' before '}' or after '{', ',' before ')' or after '(') and maps
// integer literals that are purely decimal to their value.
func Normalize(toks []Token) []Token {
	out := make([]Token, 0, len(toks))
	for i, t := range toks {
		if t.Kind == ';' && i+1 < len(toks) && toks[i+1].Kind == '}' {
			continue
		}
		if t.Kind == ',' && i+1 < len(toks) && toks[i+1].Kind == ')' {
			continue
		}
		// the grammar (fields: empty | field | fields ';' field) also admits a separator
		// before the first item; separators carry no information
		if t.Kind == ';' && i > 0 && toks[i-1].Kind == '{' {
			continue
		}
		if t.Kind == ',' && i > 0 && toks[i-1].Kind == '(' {
			continue
		}
		if t.Kind == scanner.Int {
			if v, ok := decimalValue(t.Text); ok {
				t.Text = v.String()
			}
		}
		out = append(out, t)
	}
	return out
}

// EqualTokens compares two normalized token sequences; it returns the first differing index or -1.
func EqualTokens(a, b []Token) int {
	n := len(a)
	if len(b) < n {
		n = len(b)
	}
	for i := 0; i < n; i++ {
		if a[i].Kind != b[i].Kind || a[i].Text != b[i].Text {
			return i
		}
	}
	if len(a) != len(b) {
		return n
	}
	return -1
}
