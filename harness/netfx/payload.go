package netfx

import (
	"encoding/binary"
	"fmt"
)

// Payload scheme: header(conn, channel, dir, seq, len) || PRF(header). Truncation,
// duplication, reordering and cross-channel leakage are detectable from the bytes alone.
const headerLen = 16

type Header struct {
	Conn uint16
	Chan uint32
	Dir  uint8 // 0 client->server, 1 server->client
	Seq  uint32
	Len  uint32
}

func prf(h [headerLen]byte, i int) byte {
	x := uint64(binary.LittleEndian.Uint64(h[:8])) ^ uint64(binary.LittleEndian.Uint64(h[8:]))*0x9E3779B97F4A7C15
	x += uint64(i) * 0xBF58476D1CE4E5B9
	x ^= x >> 29
	x *= 0x94D049BB133111EB
	x ^= x >> 32
	return byte(x)
}

// Make builds a payload of exactly n bytes (n >= 1). Payloads shorter than the header
// carry a truncated header: still checked against the expected header by Verify.
func Make(h Header, n int) []byte {
	h.Len = uint32(n)
	var hb [headerLen]byte
	binary.LittleEndian.PutUint16(hb[0:], h.Conn)
	binary.LittleEndian.PutUint32(hb[2:], h.Chan)
	hb[6] = h.Dir
	hb[7] = 0xa5
	binary.LittleEndian.PutUint32(hb[8:], h.Seq)
	binary.LittleEndian.PutUint32(hb[12:], h.Len)
	out := make([]byte, n)
	for i := 0; i < n; i++ {
		if i < headerLen {
			out[i] = hb[i] ^ 0x5c
		} else {
			out[i] = prf(hb, i)
		}
	}
	return out
}

// Verify checks that p is exactly the payload Make(h, len) for the expected header
// fields (Len taken from the expectation).
func Verify(p []byte, want Header, wantLen int) error {
	exp := Make(want, wantLen)
	if len(p) != len(exp) {
		return fmt.Errorf("payload length %d, want %d (conn=%d chan=%d dir=%d seq=%d)", len(p), len(exp), want.Conn, want.Chan, want.Dir, want.Seq)
	}
	for i := range p {
		if p[i] != exp[i] {
			got := Describe(p)
			return fmt.Errorf("payload differs at byte %d of %d: expected conn=%d chan=%d dir=%d seq=%d, got %s", i, len(p), want.Conn, want.Chan, want.Dir, want.Seq, got)
		}
	}
	return nil
}

// Describe decodes the header of a payload for diagnostics.
func Describe(p []byte) string {
	if len(p) < headerLen {
		return fmt.Sprintf("short payload %x", p)
	}
	var hb [headerLen]byte
	for i := range hb {
		hb[i] = p[i] ^ 0x5c
	}
	return fmt.Sprintf("conn=%d chan=%d dir=%d seq=%d len=%d", binary.LittleEndian.Uint16(hb[0:]), binary.LittleEndian.Uint32(hb[2:]), hb[6], binary.LittleEndian.Uint32(hb[8:]), binary.LittleEndian.Uint32(hb[12:]))
}

// HeaderChan extracts the channel id from a payload of at least 16 bytes.
func HeaderChan(p []byte) uint32 {
	var hb [6]byte
	for i := range hb {
		hb[i] = p[i] ^ 0x5c
	}
	return binary.LittleEndian.Uint32(hb[2:])
}

// HeaderConn extracts the conn/role field from a payload of at least 16 bytes.
func HeaderConn(p []byte) uint16 {
	return uint16(p[0]^0x5c) | uint16(p[1]^0x5c)<<8
}

// ParseHeader decodes the header of a payload of at least 16 bytes.
func ParseHeader(p []byte) (h Header, ok bool) {
	if len(p) < headerLen {
		return h, false
	}
	var hb [headerLen]byte
	for i := range hb {
		hb[i] = p[i] ^ 0x5c
	}
	if hb[7] != 0xa5 {
		return h, false
	}
	h.Conn = binary.LittleEndian.Uint16(hb[0:])
	h.Chan = binary.LittleEndian.Uint32(hb[2:])
	h.Dir = hb[6]
	h.Seq = binary.LittleEndian.Uint32(hb[8:])
	h.Len = binary.LittleEndian.Uint32(hb[12:])
	return h, true
}
