"""Human-written manifest texts per property."""

HOOK_COMMITS = []

NOT_BUILT_REASON = {}

META = {}

META["C10"] = dict(
    engine="codec",
    design_ref="DESIGN.md 3/C10",
    technique="property-based testing: exhaustive enumeration (8/16-bit, 32-bit in thorough) + edge lists + rapid random values against an inverse/representability oracle",
    level_text="Exploration with exhaustive sub-spaces: every bool/byte/int16/uint16 value through every stored-width x read-width pair is enumerated; thorough enumerates all 2^32 int32/uint32/float32 values; 64-bit and float64 are covered on all exponent/varint/zig-zag edges plus random values. The oracle (decode(encode(v)) == v bit-exactly, sizes agree, cross-width read returns v iff representable else error) is independent of the implementation.",
    level_note="Trusts Go's float32(v) conversion as the definition of correct rounding (cross-checked against math/big in a self-test). 64-bit domains are sampled, not enumerated.",
)
