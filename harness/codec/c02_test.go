package codec

// C02 — decoding arbitrary bytes never panics or reads out of bounds.

import (
	"fmt"
	"runtime/debug"
	"testing"

	"pgregory.net/rapid"

	"verifharness/ev"
	"verifharness/gen"
	"verifharness/guard"
	"verifharness/refcodec"
	"verifharness/walk"
)

const c02 = "C02"

type c02case struct {
	Input     string `json:"input_hex"`
	Len       int    `json:"len"`
	Placement string `json:"placement,omitempty"`
	Origin    string `json:"origin,omitempty"`
}

var c02region *guard.Region

func region(t ev.TB) *guard.Region {
	if c02region == nil {
		r, err := guard.New(1 << 20)
		if err != nil {
			t.Fatalf("guard region: %v", err)
		}
		c02region = r
	}
	return c02region
}

// hostile runs every read entry point on input in both guard placements.
// It returns whether the recursive parser accepted the input.
func hostile(t ev.TB, id string, input []byte, origin string) (accepted bool, calls int) {
	reg := region(t)
	if len(input) > reg.Max() {
		return false, 0
	}
	for pl := 0; pl < 2; pl++ {
		var b []byte
		name := "ends-at-guard-page"
		if pl == 0 {
			b = reg.AtEnd(input)
		} else {
			b = reg.AtStart(input)
			name = "starts-after-guard-page"
		}
		w := walk.New()
		err, pan := runWalk(w, b)
		calls += w.Calls
		kase := c02case{Input: hexHead(input, 96), Len: len(input), Placement: name, Origin: origin}
		if pan != "" {
			ev.Violation(t, id, "decode-panic", kase, "read entry point panicked on % x (len %d, %s): %s", clip(input, 40), len(input), name, pan)
		}
		if err != nil {
			ev.Violation(t, id, "decode-bounds", kase, "%v (input % x, len %d)", err, clip(input, 40), len(input))
		}
		accepted = w.Accepted
	}
	return
}

func clip(b []byte, n int) []byte {
	if len(b) > n {
		return b[len(b)-n:]
	}
	return b
}

func runWalk(w *walk.Walker, b []byte) (err error, panicked string) {
	old := debug.SetPanicOnFault(true)
	defer debug.SetPanicOnFault(old)
	defer func() {
		if r := recover(); r != nil {
			st := debug.Stack()
			if fromRapid(st) {
				panic(r)
			}
			panicked = fmt.Sprintf("%v\n%s", r, trimStack(st))
		}
	}()
	err = w.All(b)
	return
}

func validType(b byte) bool {
	for _, t := range refcodec.TypeCodes {
		if t == b {
			return true
		}
	}
	return false
}

func TestC02_ExhaustiveShort(t *testing.T) {
	shard, shards := ev.Shard()
	ev.Rule(c02, "exhaustive: every byte string of length 0..2; length 3 with last byte in {21 type codes,0,0xfd,0xfe,0xff} (quick) or all 2^24 (thorough); each evaluated at both guard-page placements through ~60 entry points + accessor walker; non-trivial = last byte is a valid type code (reaches a decoder body)")
	var n, nt int64
	one := func(in []byte) {
		hostile(t, c02, in, "exhaustive")
		n++
		if len(in) > 0 && validType(in[len(in)-1]) {
			nt++
		}
	}
	if shard == 0 {
		one([]byte{})
		for a := 0; a < 256; a++ {
			one([]byte{byte(a)})
		}
	}
	for a := shard; a < 256; a += shards {
		for b := 0; b < 256; b++ {
			one([]byte{byte(a), byte(b)})
		}
	}
	ev.Exhaustive(c02, "all byte strings of length <=2")
	lasts := append([]byte{0, 0xfd, 0xfe, 0xff}, refcodec.TypeCodes...)
	if ev.Thorough() {
		lasts = lasts[:0]
		for i := 0; i < 256; i++ {
			lasts = append(lasts, byte(i))
		}
		ev.Exhaustive(c02, "all byte strings of length 3")
	}
	for a := shard; a < 256; a += shards {
		for b := 0; b < 256; b++ {
			for _, c := range lasts {
				one([]byte{byte(a), byte(b), c})
			}
		}
	}
	ev.CaseEnum(c02, n, nt, "exhaustive-short")
	ev.Sample(c02, c02case{Input: "c85a", Len: 2, Origin: "exhaustive (struct with size 200 in a 2-byte input)"})
}

var mutValues = []byte{0, 1, 2, 0x7f, 0x80, 0xfc, 0xfd, 0xfe, 0xff}

// structural mutants of one valid encoding
func mutateStructural(t ev.TB, id string, base []byte, marks []int, f func(in []byte, origin string)) {
	buf := make([]byte, len(base))
	for _, off := range marks {
		orig := base[off]
		vals := append([]byte{orig + 1, orig - 1, orig ^ 0x80}, mutValues...)
		vals = append(vals, refcodec.TypeCodes...)
		for _, v := range vals {
			if v == orig {
				continue
			}
			copy(buf, base)
			buf[off] = v
			f(buf, fmt.Sprintf("structural byte %d/%d set to %#x", off, len(base), v))
		}
	}
}

func TestC02_StructuralMutants(t *testing.T) {
	ev.Rule(c02, "structure-aware: valid encodings from the C01 generator; every structural byte (type bytes, size/integer varints, NUL terminators, table entries) set to {0,1,2,0x7f,0x80,0xfc..0xff,+-1,^0x80, every type code}; truncation at every length from both ends; splices of two encodings; non-trivial = mutant of a valid encoding whose last byte is a valid type code; distinct by input hash")
	ev.Check(t, c02, func(rt *rapid.T) {
		s := gen.RapidSrc{T: rt}
		n, _ := gen.Tree(s, gen.Limits{MaxDepth: 3, MaxNodes: 14})
		base := refcodec.Encode(nil, n)
		if len(base) > 400 {
			// keep the per-case mutant count bounded; large inputs are covered by the sampled mutation below
			marks := refcodec.Marks(base, n)
			k := rapid.IntRange(0, len(marks)-1).Draw(rt, "markidx")
			v := rapid.Byte().Draw(rt, "markval")
			m := append([]byte(nil), base...)
			m[marks[k]] = v
			acc, _ := hostile(rt, c02, m, "sampled structural mutation of a large encoding")
			ev.Case(c02, ev.Hash(m), validType(m[len(m)-1]), "mutant:large", fmt.Sprintf("accepted=%v", acc))
			return
		}
		marks := refcodec.Marks(base, n)
		var cnt, acc int64
		seen := func(in []byte, origin string) {
			a, _ := hostile(rt, c02, in, origin)
			cnt++
			if a {
				acc++
			}
			ev.Case(c02, ev.Hash(in), len(in) > 0 && validType(in[len(in)-1]), "mutant:structural")
		}
		mutateStructural(rt, c02, base, marks, seen)
		// truncations
		for k := 1; k < len(base); k++ {
			a, _ := hostile(rt, c02, base[k:], "front-truncated valid encoding")
			if a {
				acc++
			}
			b, _ := hostile(rt, c02, base[:k], "tail-truncated valid encoding")
			if b {
				acc++
			}
			cnt += 2
			ev.Case(c02, ev.Hash(base[k:]), validType(base[len(base)-1]), "mutant:truncated")
			ev.Case(c02, ev.Hash(base[:k], "t"), validType(base[k-1]), "mutant:truncated")
		}
		// splice with another encoding
		n2, _ := gen.Tree(s, gen.Limits{MaxDepth: 2, MaxNodes: 8})
		b2 := refcodec.Encode(nil, n2)
		cut1 := rapid.IntRange(0, len(base)).Draw(rt, "cut1")
		cut2 := rapid.IntRange(0, len(b2)).Draw(rt, "cut2")
		sp := append(append([]byte(nil), base[:cut1]...), b2[cut2:]...)
		hostile(rt, c02, sp, "splice of two valid encodings")
		ev.Case(c02, ev.Hash(sp), len(sp) > 0 && validType(sp[len(sp)-1]), "mutant:splice")
		ev.Label(c02, "mutants-accepted-by-parser", acc)
		ev.Label(c02, "mutants-total", cnt)
		if ev.WantSample(c02) {
			ev.Sample(c02, map[string]any{"base_tree": n.Render(200), "base_hex": hexHead(base, 48), "structural_bytes": len(marks), "mutants": cnt, "accepted": acc})
		}
	})
}

// hostile size/offset values
// (the values just below 2^32 make 32-bit sums of table and data size wrap to a small, plausible number)
var hostileSizes = []uint64{0, 1, 2, 3, 5, 6, 7, 0xfc, 0xfd, 0xffff, 0x10000, 0x7fffffff, 0x80000000, 0xfffffff0, 0xfffffff8, 0xfffffffa, 0xfffffffc, 0xfffffffd, 0xfffffffe, 0xffffffff}

func drawSize(rt *rapid.T, label string, honest int) uint64 {
	switch rapid.IntRange(0, 4).Draw(rt, label+"/class") {
	case 0:
		return uint64(honest)
	case 1:
		return uint64(honest + rapid.IntRange(-3, 3).Draw(rt, label+"/delta"))
	case 2:
		return hostileSizes[rapid.IntRange(0, len(hostileSizes)-1).Draw(rt, label+"/hostile")]
	default:
		return uint64(rapid.IntRange(0, 300).Draw(rt, label+"/small"))
	}
}

// drawLyingContainer builds a list or message (small or big form) by hand: element data that is a
// concatenation of valid values or garbage, a table whose entries may be non-monotonic, beyond the data,
// unsorted or duplicated, and declared data/table sizes that may lie.
func drawLyingContainer(rt *rapid.T) (in []byte, desc string) {
	isMsg := rapid.Bool().Draw(rt, "message")
	big := rapid.Bool().Draw(rt, "big")
	// data: concatenation of valid values or garbage
	var data []byte
	var ends []int
	s := gen.RapidSrc{T: rt}
	cnt := rapid.IntRange(0, 6).Draw(rt, "count")
	for i := 0; i < cnt; i++ {
		if rapid.IntRange(0, 4).Draw(rt, "garbage") == 0 {
			data = append(data, rapid.SliceOfN(rapid.Byte(), 0, 6).Draw(rt, "garbagebytes")...)
		} else {
			n, _ := gen.Tree(s, gen.Limits{MaxDepth: 2, MaxNodes: 5})
			data = refcodec.Encode(data, n)
		}
		ends = append(ends, len(data))
	}
	// table entries
	var table []byte
	nent := cnt + rapid.IntRange(-1, 2).Draw(rt, "extraentries")
	if nent < 0 {
		nent = 0
	}
	prevTag := 0
	for i := 0; i < nent; i++ {
		var off uint64
		switch rapid.IntRange(0, 5).Draw(rt, "offclass") {
		case 0, 1:
			if i < len(ends) {
				off = uint64(ends[i])
			}
		case 2:
			off = uint64(rapid.IntRange(0, len(data)+3).Draw(rt, "offany"))
		case 3:
			off = hostileSizes[rapid.IntRange(0, len(hostileSizes)-1).Draw(rt, "offhostile")]
		case 4:
			if i > 0 && i-1 < len(ends) {
				off = uint64(ends[i-1]) // duplicate / non-monotonic
			}
		default:
			off = uint64(len(data)) + uint64(rapid.IntRange(0, 2).Draw(rt, "offbeyond"))
		}
		if isMsg {
			tag := prevTag + rapid.IntRange(-1, 3).Draw(rt, "tagstep")
			if tag < 0 {
				tag = 0
			}
			prevTag = tag
			if big {
				table = append(table, byte(tag>>8), byte(tag), byte(off>>24), byte(off>>16), byte(off>>8), byte(off))
			} else {
				table = append(table, byte(tag), byte(off>>8), byte(off))
			}
		} else if big {
			table = append(table, byte(off>>24), byte(off>>16), byte(off>>8), byte(off))
		} else {
			table = append(table, byte(off>>8), byte(off))
		}
	}
	if rapid.IntRange(0, 5).Draw(rt, "oddtable") == 0 {
		table = append(table, rapid.SliceOfN(rapid.Byte(), 1, 2).Draw(rt, "oddbytes")...)
	}
	typ := byte(refcodec.TList)
	switch {
	case isMsg && big:
		typ = refcodec.TBigMessage
	case isMsg:
		typ = refcodec.TMessage
	case big:
		typ = refcodec.TBigList
	}
	ds := drawSize(rt, "datasize", len(data))
	ts := drawSize(rt, "tablesize", len(table))
	in = refcodec.RawContainer(typ, data, table, ds, ts)
	desc = fmt.Sprintf("lying table: msg=%v big=%v declared data=%d table=%d actual data=%d table=%d", isMsg, big, ds, ts, len(data), len(table))
	return in, desc
}

func TestC02_LyingTables(t *testing.T) {
	ev.Rule(c02, "table corruptions built directly: lists and messages (small and big form) whose tables are non-monotonic, point beyond the data, are unsorted or have duplicate tags, whose table size is not a multiple of the entry size, whose declared data/table sizes lie (off by one, huge, larger than the input), with valid or garbage element data; non-trivial = all; distinct by input hash")
	ev.CheckScaled(t, c02, 40, 1, func(rt *rapid.T) {
		in, desc := drawLyingContainer(rt)
		if rapid.IntRange(0, 3).Draw(rt, "prefix") == 0 {
			in = append(rapid.SliceOfN(rapid.Byte(), 1, 8).Draw(rt, "prefixbytes"), in...)
		}
		// optionally nest inside a valid parent list so that the walker reaches it through Get/Field
		if rapid.IntRange(0, 2).Draw(rt, "nest") == 0 {
			parent := refcodec.RawContainer(refcodec.TList, in, []byte{byte(len(in) >> 8), byte(len(in))}, uint64(len(in)), 2)
			hostile(rt, c02, parent, "lying container nested in a valid list")
		}
		acc, _ := hostile(rt, c02, in, "hand-built container with lying table/sizes")
		ev.Case(c02, ev.Hash(in), true, "lying-table", fmt.Sprintf("lying-accepted=%v", acc))
		if ev.WantSample(c02) {
			ev.Sample(c02, c02case{Input: hexHead(in, 64), Len: len(in), Origin: desc})
		}
	})
}

// TestC02_Regressions replays the inputs that crashed the pinned commit.
func TestC02_Regressions(t *testing.T) {
	if sh, _ := ev.Shard(); sh != 0 {
		t.Skip("deterministic; shard 0 only")
	}
	inputs := [][]byte{
		{200, 90}, {0, 60}, {60}, {1, 1, 0, 2, 0, 1, 2, 4, 70}, {0xfd, 11}, {1, 2, 0xfd, 11},
		{0xfe, 50}, {0xff, 50}, {5, 50}, {5, 60}, {3, 0, 70}, {0, 3, 80}, {0, 6, 81}, {2, 0, 71},
	}
	for _, in := range inputs {
		hostile(t, c02, in, "regression input")
		ev.Case(c02, ev.Hash(in), true, "regression")
	}
}
