package net

import "runtime"

func runtimeGosched() { runtime.Gosched() }
