package netfx

import (
	"net"
	"strings"
	"time"
)

// ListenLoopback listens on a free loopback port. When the machine is out of ephemeral
// ports for a moment (many short-lived connections in TIME_WAIT, several checks running
// side by side) it waits and retries for up to a minute instead of failing the fixture.
func ListenLoopback() (net.Listener, error) {
	var err error
	for i := 0; i < 240; i++ {
		var ln net.Listener
		ln, err = net.Listen("tcp", "127.0.0.1:0")
		if err == nil {
			return ln, nil
		}
		if !portsExhausted(err) {
			return nil, err
		}
		time.Sleep(250 * time.Millisecond)
	}
	return nil, err
}

// DialLoopback dials with the same patience for local port exhaustion.
func DialLoopback(addr string, timeout time.Duration) (net.Conn, error) {
	var err error
	for i := 0; i < 240; i++ {
		var c net.Conn
		c, err = net.DialTimeout("tcp", addr, timeout)
		if err == nil {
			return c, nil
		}
		if !portsExhausted(err) {
			return nil, err
		}
		time.Sleep(250 * time.Millisecond)
	}
	return nil, err
}

func portsExhausted(err error) bool {
	s := err.Error()
	return strings.Contains(s, "address already in use") || strings.Contains(s, "cannot assign requested address")
}
