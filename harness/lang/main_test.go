package lang

import (
	"testing"

	"verifharness/ev"
)

func TestMain(m *testing.M) { ev.Main(m) }
